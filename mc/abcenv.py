"""E3 for ABC: the random source of ABC.get_posterior_sample as the environment.

Every proposal the library asks for (a vector of prior draws in generation 0, a particle index
plus a kernel draw afterwards) is answered from a small menu of *classes relative to the tolerance
in force*: ACCEPT (inside the prior support, reference cost clearly below the tolerance),
REJECT_TOL (inside the support, reference cost clearly above), REJECT_PRIOR (one coordinate just
outside the support, otherwise acceptable), DUPLICATE (an existing particle; under quantile
scheduling the one whose distance IS the tolerance).  A boring reference model of the algorithm
(accept iff prior density > 0 and cost < tolerance; N acceptances per generation; tolerance from
the list or the quantile of the distances) runs in lock-step and its trace is compared with the
library's visible state after every proposal and after every call."""
import contextlib
import math

import numpy as np

from . import detmodels, lossref, sched

ACCEPT, REJECT_TOL, REJECT_PRIOR, DUPLICATE, REJECT_NAN = "ACCEPT", "REJECT_TOL", "REJECT_PRIOR", "DUPLICATE", "REJECT_NAN"
NRUNG = 160


class Cut(Exception):
    """this execution is not judged (degenerate covariance, no feasible answer of the class, too close to call)"""


class Mismatch(Exception):
    """the library's behaviour differs from the reference run: a violation"""

    def __init__(self, what, **detail):
        Exception.__init__(self, what)
        self.what, self.detail = what, detail


# ------------------------------------------------------------------ priors (reference side)
def in_support(par, v):
    kind, a = par["dist"], par["pars"]
    if not math.isfinite(v):
        return False
    if kind == "unif":
        return a[0] <= v <= a[1]
    if kind == "gamma":
        return v > 0
    if kind == "norm":
        return True
    raise ValueError(kind)


def outside_value(par, vstar):
    """a value just outside the support, on the side nearest to the truth (None if the support is the whole line)"""
    kind, a = par["dist"], par["pars"]
    if kind == "unif":
        w = a[1] - a[0]
        return a[1] + 0.004 * w if (a[1] - vstar) <= (vstar - a[0]) else a[0] - 0.004 * w
    if kind == "gamma":
        return -0.004 * max(vstar, 0.05)
    return None


def prior_mid(par):
    kind, a = par["dist"], par["pars"]
    if kind == "unif":
        return 0.5 * (a[0] + a[1])
    if kind == "gamma":
        return a[0] / a[1]
    return a[0]


# ------------------------------------------------------------------ the problem
class Problem:
    """model, data and the reference cost of a particle (by NAME, from the documented meaning of a particle)"""

    def __init__(self, cfg):
        self.cfg = cfg
        c = detmodels.CATALOGUE[cfg["model"]]
        self.d = c["d"]
        self.states, self.params = self.d["states"], self.d["params"]
        self.theta_true = list(cfg.get("theta") or c["theta"][0])
        self.x0_true = list(cfg.get("x0") or c["x0"][0])
        self.t0 = 0.0
        self.times = np.linspace(0.5, 3.0, 6)
        self.cols = list(cfg["observed"])
        self.kind = cfg["loss"]                       # Square | Normal | Poisson
        sol = detmodels.reference_solution(cfg["model"], self.theta_true, self.x0_true, self.t0, self.times, d=self.d)
        y = sol[:, [self.states.index(s) for s in self.cols]].copy()
        if self.kind == "Poisson":
            y = np.round(y)                  # counts: the configuration uses populations in the hundreds
        self.y = y
        self.pars = cfg["parameters"]                 # user order: dicts name/dist/pars/logscale
        self.P = len(self.pars)
        # the truth on the sampled scale, user order
        self.vstar = []
        for p in self.pars:
            val = self.theta_true[self.params.index(p["name"])] if p["name"] in self.params else self.x0_true[self.states.index(p["name"])]
            self.vstar.append(math.log10(val) if p["logscale"] else val)
        self.scale = [p.get("scale", 0.35 * (abs(v) + 0.1)) for p, v in zip(self.pars, self.vstar)]
        self._cache = {}
        self._rungs = None
        self._cmin = None

    def natural(self, v):
        return {p["name"]: (10.0 ** x if p["logscale"] else x) for p, x in zip(self.pars, v)}

    def refcost(self, v):
        key = tuple(float(x) for x in v)
        if key in self._cache:
            return self._cache[key]
        val = self.natural(v)
        theta = [val.get(n, self.theta_true[i]) for i, n in enumerate(self.params)]
        x0 = [val.get(n, self.x0_true[i]) for i, n in enumerate(self.states)]
        con = self.cfg.get("constraint")
        if con is not None:
            k = self.states.index(con[1])
            x0[k] = con[0] - sum(x for i, x in enumerate(x0) if i != k)
        sol = detmodels.reference_solution(self.cfg["model"], theta, x0, self.t0, self.times, d=self.d)
        yhat = sol[:, [self.states.index(s) for s in self.cols]]
        if self.kind == "Poisson" and np.min(yhat) <= 0:
            c = float("nan")
        else:
            c = lossref.loss_value(self.kind, self.y, yhat, None, self.cfg.get("sigma") if self.kind == "Normal" else None)
        self._cache[key] = c
        return c

    def cmin(self):
        """the cost at the generating values (0 for noise-free square loss, the constant of the likelihood otherwise)"""
        if self._cmin is None:
            self._cmin = min(self.refcost(self.vstar), min(c for _, _, c in self.rungs()))
        return self._cmin

    def supported(self, v):
        return all(in_support(p, x) for p, x in zip(self.pars, v))

    def rung(self, k):
        """k-th point of a shrinking, never collinear spiral around the truth (sampled scale)"""
        r = 0.9 * 0.93 ** k
        P = self.P
        if P == 1:
            dirs = [1.0 if k % 2 == 0 else -1.0]
        else:
            dirs = [math.cos(k * (2.399963 + 0.7548777 * j) + 1.3 * j) for j in range(P)]
            nrm = math.sqrt(sum(x * x for x in dirs)) or 1.0
            dirs = [x / nrm for x in dirs]
        return np.array([self.vstar[j] + r * self.scale[j] * dirs[j] for j in range(P)])

    def rungs(self):
        if self._rungs is None:
            out = []
            for k in range(NRUNG):
                v = self.rung(k)
                if self.supported(v):
                    c = self.refcost(v)
                    if math.isfinite(c):
                        out.append((k, v, c))
            self._rungs = out
        return self._rungs


# ------------------------------------------------------------------ one execution
class Env:
    def __init__(self, prob, s, min_cost=0.0):
        self.pb, self.s = prob, s
        self.phase = "setup"
        self.abc = None
        self.used = set()
        self.next_k = 0
        self.log = []              # proposals: dict(gen, slot, cls, v, cost, accept)
        self.tolerances_all = []   # per call: list of tolerances
        self.last = None
        self.pending = []
        self.cur_index = None
        self.n_choice_calls = 0
        self.done = True
        self.res = None
        self.dist = None
        self.counts = {ACCEPT: 0, REJECT_TOL: 0, REJECT_PRIOR: 0, DUPLICATE: 0, REJECT_NAN: 0, "boundary_duplicates": 0, "accepted": 0, "rejected": 0}

    # ---------------------------------------------------------- reference run
    def begin_call(self, N, tol, G, q, rerun):
        self.N, self.tolarg, self.G, self.q, self.rerun = N, tol, G, q, rerun
        self.gens = list(range(int(rerun), G + int(rerun)))
        self.k = 0
        self.slot = 0
        self.done = False
        if not rerun:
            self.res = np.zeros((N, self.pb.P))
            self.dist = np.zeros(N)
        self.new_res, self.new_dist = self.res.copy(), self.dist.copy()
        self.tols = []
        self._set_tol()
        self.phase = "run"
        self.last = None

    def _set_tol(self):
        kk = self.k
        if kk == 0:
            t = self.tolarg[0] if hasattr(self.tolarg, "__len__") else self.tolarg
        elif self.q is not None:
            t = float(np.quantile(self.dist, self.q))
        else:
            t = self.tolarg[kk]
        self.tol = float(t)
        self.tols.append(self.tol)
        self.next_k = 0

    def gen(self):
        return self.gens[self.k]

    def _advance(self, v, cost, accept):
        self.log.append({"gen": self.gen(), "slot": self.slot, "v": [float(x) for x in v], "cost": cost, "tol": self.tol, "accept": accept})
        self.last = (self.k, self.slot, np.array(v, float), accept, self.res[self.slot].copy())
        if accept:
            self.counts["accepted"] += 1
            self.new_res[self.slot] = v
            self.new_dist[self.slot] = cost
            self.slot += 1
            if self.slot == self.N:
                self.res, self.dist = self.new_res.copy(), self.new_dist.copy()
                self.k += 1
                self.slot = 0
                if self.k >= len(self.gens):
                    self.done = True
                else:
                    self._set_tol()
        else:
            self.counts["rejected"] += 1

    def judge(self, v):
        if not self.pb.supported(v):
            return float("nan"), False
        c = self.pb.refcost(v)
        if math.isnan(c):
            return c, False                         # undefined cost: never below any tolerance
        if c != self.tol and math.isfinite(self.tol) and abs(c - self.tol) <= 1e-7 * abs(self.tol):
            raise Cut("reference cost within 1e-7 of the tolerance: too close to call")
        return c, bool(c < self.tol)

    # ---------------------------------------------------------- step-level conformance
    def conform_step(self):
        """the library's visible state must agree with the reference about the previous proposal"""
        if self.last is None or self.abc is None:
            return
        k, slot, v, accept, old = self.last
        row = np.asarray(self.abc.res[slot], float)
        if np.array_equal(old, v):
            return                                    # a duplicate of the very particle this slot held: not observable
        lib_accepted = np.array_equal(row, v)
        if accept and not lib_accepted:
            raise Mismatch("library-rejected-a-proposal-the-reference-accepts", proposal=self.log[-1])
        if (not accept) and lib_accepted:
            raise Mismatch("library-accepted-a-proposal-the-reference-rejects", proposal=self.log[-1])

    # ---------------------------------------------------------- candidate answers
    def _plausible(self, v, mean, sigma):
        if mean is None:
            return True
        try:
            dlt = np.asarray(v, float) - np.asarray(mean, float)
            md2 = float(dlt @ np.linalg.solve(np.atleast_2d(sigma), dlt))
        except Exception:
            return False
        return md2 <= 36.0                       # within six standard deviations of the kernel

    def _below(self, c):
        """clearly below the tolerance: at most 90% of the way from the smallest attainable cost to the tolerance"""
        c0 = self.pb.cmin()
        return (not math.isfinite(self.tol) and math.isfinite(c)) or (c - c0) < 0.9 * (self.tol - c0)

    def _above(self, c):
        c0 = self.pb.cmin()
        return math.isfinite(self.tol) and self.tol > c0 and (c - c0) > 1.1 * (self.tol - c0)

    def cand_accept(self, mean=None, sigma=None):
        """a supported point with reference cost clearly below the tolerance (and plausible under the kernel asked for).
        Rungs of the spiral are taken with a stride, so that the costs inside one generation are well spread; when no rung is
        plausible under a narrow kernel the answer is a step from the kernel mean towards the truth."""
        rungs = self.pb.rungs()
        for lo in (self.next_k, 0):
            for k, v, c in rungs:
                if k < lo or k in self.used:
                    continue
                if self._below(c) and self._plausible(v, mean, sigma):
                    return k, v
        if mean is None:
            return None
        vs = np.asarray(self.pb.vstar, float)
        n = len(self.log)
        for a in (0.2, 0.35, 0.5, 0.7, 0.85, 0.95):
            jit = (self.pb.rung(n % 40) - vs) * 0.05 * a * (np.linalg.norm((vs - mean) / self.pb.scale) + 1e-3)
            v = mean + a * (1 + 0.003 * (n % 17)) * (vs - mean) + jit
            if self.pb.supported(v) and self._plausible(v, mean, sigma) and self._below(self.pb.refcost(v)):
                if not any(np.array_equal(v, r) for r in self.res) and not any(np.array_equal(v, r) for r in self.new_res):
                    return None, v
        return None

    def cand_reject_tol(self):
        if not math.isfinite(self.tol):
            return None
        best = None
        for k, v, c in self.pb.rungs():
            if self._above(c):
                best = (k, v)                       # the closest rung still above the tolerance
        return best

    def cand_reject_prior(self, mean=None, sigma=None):
        acc = self.cand_accept(mean, sigma)
        bounded = [j for j, p in enumerate(self.pb.pars) if outside_value(p, self.pb.vstar[j]) is not None]
        if acc is None or not bounded:
            return None
        j = bounded[len(self.log) % len(bounded)]
        v = acc[1].copy()
        v[j] = outside_value(self.pb.pars[j], self.pb.vstar[j])
        return None, v

    def cand_duplicate(self):
        if self.gen() == 0:
            return None
        j = None
        for i in range(self.N):
            if self.dist[i] == self.tol:
                j = i
        if j is not None:
            self.boundary_dup = True
        else:
            self.boundary_dup = False
            j = int(np.argmax(self.dist))
        return None, self.res[j].copy()

    def cand_nan(self):
        """a point inside the prior support at which the loss is undefined (a non-positive prediction under a likelihood
        for positive data: the library's cost is nan there); neither 'cost < tolerance' nor its careless negation holds"""
        v = self.pb.cfg.get("nan_point")
        if v is None:
            return None
        v = np.array(v, float) * (1 + 1e-3 * (len(self.log) % 7))
        c = self.pb.refcost(v)
        return (None, v) if (self.pb.supported(v) and not math.isfinite(c)) else None

    def new_proposal(self, mean=None, sigma=None):
        if self.done:
            raise Mismatch("library-asks-for-a-proposal-after-the-reference-run-is-complete", proposals=len(self.log))
        self.conform_step()
        menu = []
        for cls, fn in ((ACCEPT, lambda: self.cand_accept(mean, sigma)), (REJECT_TOL, self.cand_reject_tol),
                        (REJECT_PRIOR, lambda: self.cand_reject_prior(mean, sigma)), (DUPLICATE, self.cand_duplicate),
                        (REJECT_NAN, self.cand_nan)):
            c = fn()
            if c is not None:
                menu.append((cls, c))
        if not menu or menu[0][0] != ACCEPT:
            raise Cut("no acceptable candidate left for the default answer")
        i = self.s.choose(len(menu))
        cls, (k, v) = menu[i]
        self.counts[cls] += 1
        if cls == DUPLICATE and self.boundary_dup:
            self.counts["boundary_duplicates"] += 1
        if cls == ACCEPT and k is not None:
            self.used.add(k)
            self.next_k = k + 3
        v = np.array(v, float)
        cost, accept = self.judge(v)
        self.s.log.append((cls, [float(x) for x in v], cost, self.tol, accept))
        return v, cost, accept

    # ---------------------------------------------------------- seams
    def prior_draw(self, kind):
        def f(s, a, kw):
            size = kw.get("size", 1)
            if self.phase == "setup":
                return np.full(size, 0.5)            # create_loss draws a throw-away theta from the priors
            if not self.pending:
                self.conform_step()
            if self.done or self.gen() != 0:
                raise Mismatch("prior-draw-outside-generation-0", kind=kind)
            if not self.pending:
                v, cost, accept = self.new_proposal()
                self.pending = [(j, float(x)) for j, x in enumerate(v)]
                self._after = (v, cost, accept)
            j, x = self.pending.pop(0)
            want = {"unif": "uniform", "gamma": "gamma", "norm": "normal"}[self.pb.pars[j]["dist"]]
            if want != kind:
                raise Mismatch("prior-draw-of-unexpected-kind", position=j, got=kind, want=want)
            if not self.pending:
                v, cost, accept = self._after
                self._advance(v, cost, accept)
            return np.full(size, x)
        return f

    def choice(self, s, a, kw):
        if self.phase == "run":
            self.conform_step()
        if self.phase != "run" or self.done:
            if self.phase == "run":
                raise Mismatch("library-asks-for-a-proposal-after-the-reference-run-is-complete", proposals=len(self.log))
            raise Mismatch("choice-outside-a-run")
        if self.gen() == 0:
            raise Mismatch("kernel-proposal-in-generation-0")
        n = int(a[0])
        p = np.asarray(kw.get("p"), float)
        if p.shape != (n,) or not np.all(np.isfinite(p)) or np.any(p < 0) or abs(p.sum() - 1) > 1e-8:
            raise Mismatch("weights-are-not-a-probability-vector", p=p.tolist())
        opts = [0, n - 1] if n > 1 else [0]
        opts = [i for i in opts if p[i] > 0] or [int(np.argmax(p))]
        self.cur_index = opts[self.s.choose(len(opts))]
        self.n_choice_calls += 1
        return self.cur_index

    def rmvnorm(self, n, mean, sigma, seed=None):
        if self.phase != "run" or self.cur_index is None:
            raise Mismatch("kernel-draw-without-a-particle-index")
        sg = np.atleast_2d(np.asarray(sigma, float))
        P = self.pb.P
        ok = sg.shape == (P, P) and np.all(np.isfinite(sg))
        if ok:
            tr = np.trace(sg) / P
            ok = tr > 0 and np.linalg.det(sg / tr) > 1e-10
        if not ok:
            raise Cut("singular or non-finite proposal covariance (degenerate population)")
        v, cost, accept = self.new_proposal(np.atleast_1d(np.asarray(mean, float)), sg)
        self.cur_index = None
        self._advance(v, cost, accept)
        return v.copy() if P > 1 else float(v[0])

    @contextlib.contextmanager
    def owned(self, abc_module):
        self.s.extra.update({"uniform": self.prior_draw("uniform"), "gamma": self.prior_draw("gamma"),
                             "normal": self.prior_draw("normal"), "choice": self.choice})
        real = abc_module.rmvnorm
        abc_module.rmvnorm = self.rmvnorm
        try:
            with sched.owned(self.s, also=("uniform", "gamma", "normal", "choice")):
                yield self
        finally:
            abc_module.rmvnorm = real

    # ---------------------------------------------------------- after a call
    def verify_call(self, abc, call):
        """the property, on the library's state after get/continue_posterior_sample returned"""
        self.conform_step()
        if not self.done:
            raise Mismatch("library-returned-before-the-reference-run-was-complete", generation=self.gen(), slot=self.slot)
        N, P = self.N, self.pb.P
        res = np.asarray(abc.res, float).reshape(N, -1)
        dist = np.asarray(abc.dist, float)
        w = np.asarray(abc.w, float)
        tols = np.asarray(abc.tolerances, float)
        bad = []
        if res.shape != (N, P) or not np.array_equal(res, self.res):
            bad.append(("particles-are-not-the-accepted-proposals", {"got": res.tolist(), "want": self.res.tolist()}))
        else:
            for i in range(N):
                if not self.pb.supported(res[i]):
                    bad.append(("particle-outside-prior-support", {"particle": res[i].tolist()}))
                c = self.pb.refcost(res[i])
                if not (abs(dist[i] - c) <= 1e-6 * (1 + abs(c))):
                    bad.append(("stored-distance-is-not-the-cost-at-the-particle", {"particle": res[i].tolist(), "stored": float(dist[i]), "reference": c}))
                if not (dist[i] < tols[-1]) or not (c < self.tols[-1] * (1 + 1e-9) or not math.isfinite(self.tols[-1])):
                    bad.append(("distance-not-below-the-generation-tolerance", {"stored": float(dist[i]), "reference": c, "tolerance": float(tols[-1])}))
                if not (np.isfinite(w[i]) and w[i] > 0):
                    bad.append(("weight-not-positive-finite", {"weights": w.tolist()}))
        if len(tols) != len(self.tols) or not all((a == b) or abs(a - b) <= 1e-6 * (1 + abs(b)) for a, b in zip(tols, self.tols)):
            bad.append(("tolerance-schedule-differs", {"got": tols.tolist(), "want": self.tols}))
        if self.q is not None and np.any(np.diff(tols) > 0):
            bad.append(("quantile-tolerances-increase", {"tolerances": tols.tolist()}))
        if self.q is not None and not (float(abc.next_tol) <= float(tols[-1])):
            bad.append(("next_tol-above-the-last-tolerance", {"next_tol": float(abc.next_tol), "tolerances": tols.tolist()}))
        if float(abc.final_tol) != float(tols[-1]):
            bad.append(("final_tol-is-not-the-last-tolerance", {"final_tol": float(abc.final_tol), "tolerances": tols.tolist()}))
        self.tolerances_all.append(list(self.tols))
        if bad:
            raise Mismatch(bad[0][0], call=call, **bad[0][1])
