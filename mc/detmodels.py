"""deterministic model catalogue as plain definitions (so that the reference right-hand
side is available), with parameter values and initial states"""
import numpy as np


def _d(states, params, events=(), odes=(), derived=()):
    return {"states": list(states), "state_style": "list", "limits": [None] * len(states), "params": list(params),
            "param_style": "list", "derived": list(derived),
            "events": [{"rate": r, "trans": list(tr)} for r, tr in events], "odes": list(odes)}


def T(o, d, m="1"): return ("T", o, d, m)
def B(d, m="1"): return ("B", None, d, m)
def D(o, m="1"): return ("D", o, None, m)


CATALOGUE = {
    "SIR_norm": dict(d=_d("SIR", ["beta", "gamma"], [("beta*S*I", [T("S", "I")]), ("gamma*I", [T("I", "R")])]),
                     theta=[[1.8, 0.6], [0.9, 0.35]], x0=[[0.9, 0.1, 0.0], [0.6, 0.3, 0.1]]),
    "SIS": dict(d=_d(["S", "I"], ["beta", "gamma"], [("beta*S*I", [T("S", "I")]), ("gamma*I", [T("I", "S")])]),
                theta=[[1.5, 0.5], [0.7, 0.9]], x0=[[0.8, 0.2], [0.3, 0.7]]),
    "SEIR": dict(d=_d(["S", "W", "I", "R"], ["beta", "kappa", "gamma"],
                      [("beta*S*I", [T("S", "W")]), ("kappa*W", [T("W", "I")]), ("gamma*I", [T("I", "R")])]),
                 theta=[[2.1, 0.8, 0.5], [1.2, 1.5, 0.3]], x0=[[0.85, 0.05, 0.1, 0.0], [0.5, 0.2, 0.2, 0.1]]),
    "Lotka_Volterra": dict(d=_d(["S", "I"], ["beta", "gamma", "mu", "kappa"],
                                [("beta*S", [B("S")]), ("gamma*S*I", [D("S")]), ("mu*S*I", [B("I")]), ("kappa*I", [D("I")])]),
                           theta=[[1.1, 0.4, 0.3, 0.9], [0.6, 0.5, 0.2, 0.4]], x0=[[2.0, 1.0], [1.0, 2.5]]),
    "FitzHugh": dict(d=_d(["S", "R"], ["beta", "gamma", "mu"],
                          odes=[("S", "mu*(S - S**3/3 + R)"), ("R", "-(S - beta + gamma*R)/mu")]),
                     theta=[[0.2, 0.2, 3.0], [0.35, 0.15, 2.0]], x0=[[-1.0, 1.0], [0.5, -0.4]]),
    "SIS_Periodic": dict(d=_d(["S", "I"], ["beta", "gamma"],
                              [("beta*(1+0.5*cos(2*pi*t))*S*I", [T("S", "I")]), ("gamma*I", [T("I", "S")])]),
                         theta=[[1.6, 0.5], [0.9, 0.7]], x0=[[0.8, 0.2], [0.4, 0.6]]),
    "Chain3": dict(d=_d(["S", "I", "R"], ["beta", "gamma"], [("beta*S", [T("S", "I")]), ("gamma*I", [T("I", "R")])]),
                   theta=[[0.9, 0.4], [0.3, 1.2]], x0=[[3.0, 1.0, 0.5], [1.0, 0.0, 2.0]]),
    "Logistic": dict(d=_d(["S"], ["beta", "kappa"], odes=[("S", "beta*S*(1-S/kappa)")]),
                     theta=[[0.9, 5.0], [1.7, 2.0]], x0=[[0.5], [3.5]]),
    "Asym23": dict(d=_d(["S", "I"], ["beta", "gamma", "mu"],
                        [("beta*S/(1+I)", [T("S", "I")]), ("gamma*I", [D("I", "2")]), ("mu", [B("S")])]),
                   theta=[[0.8, 0.3, 0.5], [1.4, 0.6, 0.2]], x0=[[2.0, 0.7], [0.8, 1.9]]),
    "Additive": dict(d=_d(["S", "I", "R"], ["beta", "gamma"],
                          odes=[("S", "beta - S**2"), ("I", "0.5*S*I - I + gamma"), ("R", "I - S*R**2")]),
                     theta=[[0.8, 0.3], [0.5, 0.6]], x0=[[0.6, 0.9, 0.4], [1.1, 0.3, 0.8]]),
    # parameters enter only as constant terms: all mixed state-parameter and parameter-parameter second derivatives vanish
    "Additive2": dict(d=_d(["S", "I"], ["beta", "gamma", "mu"],
                           odes=[("S", "beta + 2*gamma - S*I"), ("I", "S*I - I**2 + mu - gamma")]),
                      theta=[[0.7, 0.2, 0.5], [0.4, 0.35, 0.8]], x0=[[0.8, 0.5], [1.2, 0.9]]),
    "Additive1": dict(d=_d(["S"], ["beta", "gamma"], odes=[("S", "beta + 0.5*gamma - S**3")]),
                      theta=[[0.9, 0.4], [0.3, 1.1]], x0=[[0.4], [1.3]]),
    # a parameter product: the parameter-parameter second derivative is non-zero
    "ParamProduct": dict(d=_d(["S", "I"], ["beta", "gamma"], [("beta*gamma*S", [T("S", "I")]), ("gamma*I", [D("I")])]),
                         theta=[[0.9, 0.7], [1.4, 0.4]], x0=[[2.0, 0.5], [1.0, 1.5]]),
    # constant drift: the state becomes negative when gamma is large (a positive-data likelihood is then undefined)
    "Drift": dict(d=_d(["S"], ["beta", "gamma"], odes=[("S", "beta - gamma")]),
                  theta=[[60.0, 24.0], [30.0, 10.0]], x0=[[200.0], [150.0]]),
}


def closed_form(name, theta, x0, t0, times):
    """exact solutions where they exist (None otherwise)"""
    times = np.asarray(times, float)
    if name == "Chain3":
        from scipy.linalg import expm
        b, g = theta
        A = np.array([[-b, 0, 0], [b, -g, 0], [0, g, 0]], float)
        return np.array([expm(A * (t - t0)).dot(np.asarray(x0, float)) for t in times])
    if name == "Drift":
        return np.array([[x0[0] + (theta[0] - theta[1]) * (t - t0)] for t in times])
    if name == "Logistic":
        r, K = theta
        n0 = x0[0]
        return np.array([[K / (1 + (K - n0) / n0 * np.exp(-r * (t - t0)))] for t in times])
    return None


def reference_solution(name, theta, x0, t0, times, d=None, method="DOP853"):
    """solution of the *reference* right-hand side at the requested times"""
    from scipy.integrate import solve_ivp
    from . import ref
    cf = closed_form(name, theta, x0, t0, times)
    if cf is not None:
        return cf
    d = d or CATALOGUE[name]["d"]
    R = ref.Ref(d)
    ff = R.fast(R.f)
    times = np.asarray(times, float)
    order = np.argsort(times)
    ts = times[order]
    sol = solve_ivp(lambda t, x: [r[0] for r in ff(x, t, theta)], (t0, float(ts[-1]) + 1e-12), list(x0), method=method,
                    rtol=1e-12, atol=1e-14, t_eval=ts)
    if not sol.success:
        raise RuntimeError("reference integration failed: " + sol.message)
    out = np.empty((len(times), len(x0)))
    out[order] = sol.y.T
    return out
