"""E1: generator of model definitions driven by named choices, explored around seeds
with a bound on the number of non-seed choices (iterative deviation bounding)."""
import json

STATE_NAMES = ["S", "I", "R", "W", "Z"]
PARAM_NAMES = ["beta", "gamma", "mu", "kappa", "omega"]

RATE_TEMPLATES = ["linear", "massaction", "constant", "saturating", "exponential",
                  "periodic", "derived", "power", "stateonly", "sum"]
MAGS = ["1", "2", "3", "P", "P/2", "P+1"]


class Chooser:
    """answers named choices from an override map, default option 0; records the run"""

    def __init__(self, overrides=None):
        self.ov = dict(overrides or {})
        self.points = []          # (name, n_options, chosen)
        self.used = set()

    def choose(self, name, options):
        n = len(options)
        k = self.ov.get(name, 0)
        if k >= n:
            k = n - 1
        self.used.add(name)
        self.points.append((name, n, k))
        return options[k]


def rate_expr(tmpl, p, q, X, Y, dname):
    if tmpl == "linear":
        return "%s*%s" % (p, X)
    if tmpl == "massaction":
        return "%s*%s*%s" % (p, X, Y)
    if tmpl == "constant":
        return "%s" % p
    if tmpl == "saturating":
        return "%s*%s/(1+%s)" % (p, X, Y)
    if tmpl == "exponential":
        return "%s*%s*exp(-%s/%s)" % (p, X, Y, q)
    if tmpl == "periodic":
        return "%s*%s*(1+cos(2*pi*t))" % (p, X)
    if tmpl == "derived":
        return "%s*%s" % (dname, X)
    if tmpl == "power":
        return "%s*%s**2/(%s+%s)" % (p, X, q, X)
    if tmpl == "sum":             # a top-level sum: wrong if something is ever glued to it without parentheses
        return "%s*%s + %s*%s" % (p, X, q, Y)
    if tmpl == "stateonly":       # a parameter-free product of two states with unit coefficient
        return "%s*%s" % (X, Y)
    raise ValueError(tmpl)


def gen_model(ch, stochastic=False, max_states=5, max_events=5, only_T=False, hybrid=False):
    """Build a Def.  stochastic=True restricts to event-only models with integer
    magnitudes (the simulable class)."""
    ns = ch.choose("n_states", [3, 2, 4, 5] if only_T else [3, 1, 2, 4, 5])
    if ns > max_states:
        ns = max_states
    style_opts = ["list", "string", "comma", "tuples", "range", "odevar", "commaspace"]
    sstyle = ch.choose("state_style", style_opts)
    if sstyle == "range":
        states = ["y%d" % (k + 1) for k in range(ns)]
    else:
        states = STATE_NAMES[:ns]
    npar = ch.choose("n_params", [2, 1, 3, 4, 5])
    params = PARAM_NAMES[:npar]
    pstyle = ch.choose("param_style", ["list", "string", "comma", "commaspace", "odevar"])
    limits = [None] * ns
    if sstyle in ("list", "tuples"):
        for i in range(ns):
            limits[i] = ch.choose("lim%d" % i, [None, (0, None), (None, 4), (0, 3), (None, None), (1, None), (0, 1000000), (-3, 0)])
            if limits[i] is not None:
                limits[i] = tuple(limits[i])
    nder = 0 if stochastic and False else ch.choose("n_derived", [0, 1])
    derived = []
    dname = None
    if nder:
        dt = ch.choose("derived_tmpl", ["prod", "ratio", "scaled"])
        p0, p1 = params[0], params[-1]
        dexpr = {"prod": "%s*%s" % (p0, p1), "ratio": "%s/(1+%s)" % (p0, p1), "scaled": "2*%s" % p0}[dt]
        dname = "phi"
        derived.append((dname, dexpr))
    nev = ch.choose("n_events", [2, 0, 1, 3, 4, 5][:max_events + 1 if max_events < 5 else 6])
    if stochastic and nev == 0:
        nev = 1
    events = []
    for e in range(nev):
        pre = "ev%d." % e
        ntr = ch.choose(pre + "n_trans", [1, 2, 3])
        tmpls = [t for t in RATE_TEMPLATES if (t != "derived" or dname)]
        tm = ch.choose(pre + "rate", _rot(tmpls, e))
        p = ch.choose(pre + "p", _rot(params, e))
        q = ch.choose(pre + "q", _rot(params, e + 1))
        X = ch.choose(pre + "X", _rot(states, e))
        Y = ch.choose(pre + "Y", _rot(states, e + 1))
        rate = rate_expr(tm, p, q, X, Y, dname)
        trans = []
        for k in range(ntr):
            tp = pre + "tr%d." % k
            types = ["T", "B", "D"] if ns >= 2 else ["B", "D"]
            if only_T:
                types = ["T"]
            typ = ch.choose(tp + "type", types)
            o = ch.choose(tp + "o", _rot(states, e + k))
            if typ == "T":
                dst = ch.choose(tp + "d", [s for s in _rot(states, e + k + 1) if s != o])
            else:
                dst = None
            mags = MAGS[:3] if stochastic else MAGS
            mag = ch.choose(tp + "mag", mags)
            if "P" in mag:
                mag = mag.replace("P", ch.choose(tp + "magp", _rot(params, k + 1)))
            if typ == "B":
                trans.append(("B", None, o, mag))
            elif typ == "D":
                trans.append(("D", o, None, mag))
            else:
                trans.append(("T", o, dst, mag))
        events.append({"rate": rate, "trans": trans})
    odes = []
    if hybrid or not stochastic:
        node = ch.choose("n_odes", [0, 1, 2])
        for k in range(node):
            s = ch.choose("ode%d.s" % k, _rot(states, k))
            ot = ch.choose("ode%d.t" % k, ["decay", "const", "cross", "sat"])
            p = ch.choose("ode%d.p" % k, _rot(params, k))
            Y = ch.choose("ode%d.Y" % k, _rot(states, k + 1))
            expr = {"decay": "-%s*%s" % (p, s), "const": "%s" % p, "cross": "%s*%s*%s" % (p, s, Y),
                    "sat": "%s*%s/(1+%s**2)" % (p, s, Y)}[ot]
            odes.append((s, expr))
    return {"states": states, "state_style": sstyle, "limits": limits, "params": params,
            "param_style": pstyle, "derived": derived, "events": events, "odes": odes}


def _rot(lst, k):
    k = k % len(lst)
    return list(lst[k:]) + list(lst[:k])


def canon(d):
    return json.dumps(d, sort_keys=True, default=str)


def explore(seed_overrides, bound, make, on_def, limit=None):
    """Enumerate every definition reachable from the seed with at most `bound` changed
    named choices.  make(ch) -> Def.  on_def(overrides, points, Def).  Returns the number
    of generator executions.  Alternatives at a choice point are taken only at points
    after the last changed point (in run order) so each set of changes is produced once."""
    count = [0]

    def run(ov):
        ch = Chooser(ov)
        d = make(ch)
        count[0] += 1
        return ch, d

    def rec(ov, start, depth):
        ch, d = run(ov)
        on_def(dict(ov), ch.points, d)
        if depth == bound:
            return
        if limit is not None and count[0] >= limit:
            return
        pts = ch.points
        for idx in range(start, len(pts)):
            name, n, k = pts[idx]
            for alt in range(n):
                if alt == k:
                    continue
                ov2 = dict(ov)
                ov2[name] = alt
                rec(ov2, idx + 1, depth + 1)

    rec(dict(seed_overrides), 0, 0)
    return count[0]


class ValueChooser(Chooser):
    """pick options by value (used to write seeds readably); returns override map"""

    def __init__(self, values):
        super().__init__({})
        self.values = values

    def choose(self, name, options):
        k = 0
        if name in self.values:
            v = self.values[name]
            v = tuple(v) if isinstance(v, list) else v
            opts = [tuple(o) if isinstance(o, list) else o for o in options]
            if v not in opts:
                raise KeyError("seed value %r not among options %r for %s" % (v, options, name))
            k = opts.index(v)
        self.used.add(name)
        self.points.append((name, len(options), k))
        if k:
            self.ov[name] = k
        return options[k]


def seed(values, **kw):
    ch = ValueChooser(values)
    d = gen_model(ch, **kw)
    unused = set(values) - ch.used
    if unused:
        raise KeyError("seed names never asked: %s" % sorted(unused))
    return dict(ch.ov), d


def _ev(e, rate, p, X=None, Y=None, q=None, trans=()):
    v = {"ev%d.rate" % e: rate, "ev%d.p" % e: p}
    if X:
        v["ev%d.X" % e] = X
    if Y:
        v["ev%d.Y" % e] = Y
    if q:
        v["ev%d.q" % e] = q
    v["ev%d.n_trans" % e] = len(trans)
    for k, t in enumerate(trans):
        typ, o, dst, mag = t
        v["ev%d.tr%d.type" % (e, k)] = typ
        v["ev%d.tr%d.o" % (e, k)] = o if typ != "B" else dst
        if typ == "T":
            v["ev%d.tr%d.d" % (e, k)] = dst
        if mag in ("1", "2", "3"):
            v["ev%d.tr%d.mag" % (e, k)] = mag
        else:
            par = [p_ for p_ in PARAM_NAMES if p_ in mag][0]
            v["ev%d.tr%d.mag" % (e, k)] = mag.replace(par, "P")
            v["ev%d.tr%d.magp" % (e, k)] = par
    return v


def seed_values(name):
    """readable seed definitions"""
    if name == "SIR":
        v = {"n_states": 3, "n_params": 2, "n_events": 2}
        v.update(_ev(0, "massaction", "beta", "S", "I", trans=[("T", "S", "I", "1")]))
        v.update(_ev(1, "linear", "gamma", "I", trans=[("T", "I", "R", "1")]))
        return v
    if name == "BD":      # birth-death with a multi-transition event and magnitudes
        v = {"n_states": 2, "n_params": 3, "n_events": 3}
        v.update(_ev(0, "constant", "beta", trans=[("B", None, "S", "2")]))
        v.update(_ev(1, "linear", "gamma", "S", trans=[("T", "S", "I", "1"), ("D", "I", None, "1")]))
        v.update(_ev(2, "linear", "mu", "I", trans=[("D", "I", None, "1")]))
        return v
    if name == "ONE":     # one state, one event
        v = {"n_states": 1, "n_params": 1, "n_events": 1}
        v.update(_ev(0, "linear", "beta", "S", trans=[("D", "S", None, "1")]))
        return v
    if name == "MIX":     # events + ODE term + derived parameter + symbolic magnitude
        v = {"n_states": 3, "n_params": 3, "n_events": 2, "n_derived": 1, "derived_tmpl": "prod",
             "n_odes": 1, "ode0.s": "R", "ode0.t": "decay", "ode0.p": "mu"}
        v.update(_ev(0, "derived", "beta", "S", trans=[("T", "S", "I", "1")]))
        v.update(_ev(1, "saturating", "gamma", "I", "R", trans=[("T", "I", "R", "gamma"), ("B", None, "S", "1")]))
        return v
    if name == "SEIRBD":  # 5 states
        v = {"n_states": 5, "n_params": 4, "n_events": 5}
        v.update(_ev(0, "massaction", "beta", "S", "R", trans=[("T", "S", "I", "1")]))
        v.update(_ev(1, "linear", "gamma", "I", trans=[("T", "I", "R", "1")]))
        v.update(_ev(2, "linear", "mu", "R", trans=[("T", "R", "W", "1")]))
        v.update(_ev(3, "constant", "kappa", trans=[("B", None, "S", "1")]))
        v.update(_ev(4, "linear", "kappa", "W", trans=[("D", "W", None, "1"), ("B", None, "Z", "1")]))
        return v
    if name == "CHAIN":   # linear progression chain A->B->C
        v = {"n_states": 3, "n_params": 2, "n_events": 2}
        v.update(_ev(0, "linear", "beta", "S", trans=[("T", "S", "I", "1")]))
        v.update(_ev(1, "linear", "gamma", "I", trans=[("T", "I", "R", "1")]))
        return v
    if name == "DRAIN":   # constant-rate death can drive a state below zero; limits declared
        v = {"n_states": 2, "n_params": 2, "n_events": 2, "state_style": "tuples",
             "lim0": (0, 3), "lim1": (0, None)}
        v.update(_ev(0, "constant", "beta", trans=[("D", "S", None, "2")]))
        v.update(_ev(1, "linear", "gamma", "S", trans=[("T", "S", "I", "1"), ("B", None, "I", "1")]))
        return v
    if name == "NONPOS":  # a non-positive "deficit" state: upper limit exactly 0, lower limit -3; constant rates
        v = {"n_states": 2, "n_params": 2, "n_events": 2, "lim0": (-3, 0), "lim1": (0, None)}
        v.update(_ev(0, "constant", "beta", trans=[("B", None, "S", "2")]))
        v.update(_ev(1, "constant", "gamma", trans=[("T", "S", "I", "1")]))
        return v
    if name == "CAPPED":  # births into a state with an upper limit
        v = {"n_states": 2, "n_params": 2, "n_events": 2, "lim0": (None, 4), "lim1": (1, None)}
        v.update(_ev(0, "constant", "beta", trans=[("B", None, "S", "3")]))
        v.update(_ev(1, "constant", "gamma", trans=[("T", "I", "S", "1")]))
        return v
    if name == "UNUSED":  # a declared parameter that no process uses, before a used one
        v = {"n_states": 2, "n_params": 3, "n_events": 2}
        v.update(_ev(0, "linear", "beta", "S", trans=[("T", "S", "I", "1")]))
        v.update(_ev(1, "saturating", "mu", "I", "S", trans=[("D", "I", None, "mu")]))
        return v
    if name == "HYBRID":  # events plus an explicit ODE term that pushes a state towards its upper limit
        v = {"n_states": 2, "n_params": 2, "n_events": 1, "lim0": (0, 3), "n_odes": 1,
             "ode0.s": "S", "ode0.t": "const", "ode0.p": "gamma"}
        v.update(_ev(0, "linear", "beta", "S", trans=[("T", "S", "I", "1")]))
        return v
    if name == "CAPPEDBIG":  # a large upper limit, births into it
        v = {"n_states": 2, "n_params": 2, "n_events": 2, "lim0": (0, 1000000)}
        v.update(_ev(0, "constant", "beta", trans=[("B", None, "S", "3")]))
        v.update(_ev(1, "linear", "gamma", "I", trans=[("T", "I", "S", "1")]))
        return v
    if name == "RANGE":   # range-style declaration
        v = {"n_states": 3, "n_params": 2, "n_events": 2, "state_style": "range"}
        v.update(_ev(0, "massaction", "beta", "y1", "y2", trans=[("T", "y1", "y2", "1")]))
        v.update(_ev(1, "constant", "gamma", trans=[("D", "y2", None, "1"), ("D", "y3", None, "1")]))
        return v
    if name == "SIRS2":   # closed, magnitudes 2, cycle
        v = {"n_states": 3, "n_params": 3, "n_events": 3}
        v.update(_ev(0, "massaction", "beta", "S", "I", trans=[("T", "S", "I", "1")]))
        v.update(_ev(1, "linear", "gamma", "I", trans=[("T", "I", "R", "2")]))
        v.update(_ev(2, "saturating", "mu", "R", "S", trans=[("T", "R", "S", "1"), ("T", "I", "S", "1")]))
        return v
    raise KeyError(name)


def small_block():
    """complete small-scope block: <=2 states, <=2 params, one event of 1-2 transitions or two
    single-transition events; full product of type x endpoints x magnitude {1,2,c} x 4 rate templates (incl. a top-level sum)"""
    import itertools
    out = []
    mags = ["1", "2", "beta"]
    for ns in (1, 2):
        states = STATE_NAMES[:ns]
        for npar in (1, 2):
            params = PARAM_NAMES[:npar]
            trans_opts = []
            for typ in (("T", "B", "D") if ns == 2 else ("B", "D")):
                for o in states:
                    if typ == "T":
                        for dd in states:
                            if dd != o:
                                for mg in mags:
                                    trans_opts.append(("T", o, dd, mg))
                    elif typ == "B":
                        for mg in mags:
                            trans_opts.append(("B", None, o, mg))
                    else:
                        for mg in mags:
                            trans_opts.append(("D", o, None, mg))
            rates = []
            for tm in ("linear", "massaction", "saturating", "sum"):
                X, Y = states[0], states[-1]
                rates.append(rate_expr(tm, params[-1], params[0], X, Y, None))
            base = {"states": states, "state_style": "list", "limits": [None] * ns, "params": params,
                    "param_style": "list", "derived": [], "odes": []}
            for rate in rates:
                for t1 in trans_opts:
                    out.append(dict(base, events=[{"rate": rate, "trans": [t1]}]))
                    for t2 in trans_opts:
                        out.append(dict(base, events=[{"rate": rate, "trans": [t1, t2]}]))
            for r1, r2 in itertools.product(rates[:2], rates[1:3]):
                for t1 in trans_opts[::2]:
                    for t2 in trans_opts[1::2]:
                        out.append(dict(base, events=[{"rate": r1, "trans": [t1]}, {"rate": r2, "trans": [t2]}]))
    return out
