"""Reference semantics of a model definition, computed without pygom.

A definition (``Def``) is plain data::

    {"states":  [name, ...],
     "limits":  [None | (lo, hi), ...]          (parallel to states; None = not declared)
     "params":  [name, ...],
     "derived": [(name, expr), ...],
     "events":  [{"rate": expr, "trans": [(type, origin, dest, magnitude), ...]}, ...],
     "odes":    [(state, expr), ...]}

type is one of "T", "B", "D"; for "B" origin is None, for "D" dest is None; magnitude
is an expression string.  Meaning: V[i,e] = sum of signed magnitudes of event e on
state i, a[e] = rate of event e, pure[i] = sum of explicit ODE terms of state i,
f = V*a + pure.  Derived parameters are substituted.  Everything else (Jacobian,
gradient, second derivatives, Cao statistics, variational systems) is sympy.diff of f.
"""
import itertools

import sympy as sp

_FUNCS = {"exp": sp.exp, "log": sp.log, "cos": sp.cos, "sin": sp.sin, "sqrt": sp.sqrt,
          "pi": sp.pi}


class Ref:
    def __init__(self, d):
        self.d = d
        self.states = list(d["states"])
        self.params = list(d["params"])
        self.xs = [sp.Symbol(n, real=True) for n in self.states]
        self.ps = [sp.Symbol(n, real=True) for n in self.params]
        self.t = sp.Symbol("t", real=True)
        tab = dict(_FUNCS)
        for n, s in zip(self.states + self.params, self.xs + self.ps):
            tab[n] = s
        tab["t"] = self.t
        self.tab = tab
        self.derived = {}
        for name, expr in d.get("derived", []):
            # a derived parameter may only use base parameters/states (as the library does)
            self.derived[name] = self.parse(expr)
        ns, ne = len(self.states), len(d.get("events", []))
        self.V = sp.zeros(ns, ne)
        self.a = sp.zeros(ne, 1)
        self.react = [[0] * ne for _ in range(ns)]
        for e, ev in enumerate(d.get("events", [])):
            self.a[e] = self.parse(ev["rate"])
            for (typ, o, dst, mag) in ev["trans"]:
                m = self.parse(str(mag))
                if typ in ("T", "D"):
                    i = self.states.index(o)
                    self.V[i, e] -= m
                    self.react[i][e] = 1
                if typ in ("T", "B"):
                    j = self.states.index(dst)
                    self.V[j, e] += m
                    self.react[j][e] = 1
        self.pure = sp.zeros(ns, 1)
        for (s, expr) in d.get("odes", []):
            self.pure[self.states.index(s)] += self.parse(expr)
        self.f = (self.V * self.a if ne else sp.zeros(ns, 1)) + self.pure

    # ------------------------------------------------------------------ parsing
    def parse(self, expr):
        tab = dict(self.tab)
        syms = {n: sp.Symbol(n, real=True) for n in self.derived}
        tab.update(syms)
        e = sp.sympify(expr, locals=tab)
        if self.derived:
            e = e.subs({syms[n]: v for n, v in self.derived.items()})
        return e

    # ------------------------------------------------------------------ derivatives
    def jacobian(self):
        return self.f.jacobian(self.xs) if self.xs else sp.zeros(0, 0)

    def grad(self):
        ns, npar = len(self.xs), len(self.ps)
        G = sp.zeros(ns, npar)
        for i in range(ns):
            for j in range(npar):
                G[i, j] = sp.diff(self.f[i], self.ps[j])
        return G

    def diff_jacobian(self):
        """stacked per equation: rows k*ns+i, column j = d2 f_k / dx_i dx_j"""
        ns = len(self.xs)
        M = sp.zeros(ns * ns, ns)
        for k in range(ns):
            for i in range(ns):
                for j in range(ns):
                    M[k * ns + i, j] = sp.diff(self.f[k], self.xs[i], self.xs[j])
        return M

    def grad_jacobian(self):
        """row k*ns+i (k parameter, i state), column j = d2 f_i / dtheta_k dx_j"""
        ns, npar = len(self.xs), len(self.ps)
        M = sp.zeros(ns * npar, ns)
        for k in range(npar):
            for i in range(ns):
                for j in range(ns):
                    M[k * ns + i, j] = sp.diff(self.f[i], self.ps[k], self.xs[j])
        return M

    def transition_jacobian(self):
        ne, ns = self.a.shape[0], len(self.xs)
        F = sp.zeros(ne, ne)
        for i in range(ne):
            for j in range(ne):
                F[i, j] = sum(sp.diff(self.a[i], self.xs[k]) * self.V[k, j] for k in range(ns))
        return F

    def transition_mean(self):
        F = self.transition_jacobian()
        ne = self.a.shape[0]
        return sp.Matrix([sum(F[i, j] * self.a[j] for j in range(ne)) for i in range(ne)])

    def transition_var(self):
        F = self.transition_jacobian()
        ne = self.a.shape[0]
        return sp.Matrix([sum(F[i, j] ** 2 * self.a[j] for j in range(ne)) for i in range(ne)])

    # ------------------------------------------------------------------ numeric
    def subs_point(self, x, t, theta):
        m = {s: v for s, v in zip(self.xs, x)}
        m[self.t] = t
        m.update({p: v for p, v in zip(self.ps, theta)})
        return m

    def num(self, M, x, t, theta):
        """evaluate a sympy Matrix at a point with mpmath (evalf), return nested lists"""
        m = self.subs_point(x, t, theta)
        rows, cols = M.shape
        out = [[0.0] * cols for _ in range(rows)]
        for i in range(rows):
            for j in range(cols):
                e = M[i, j]
                out[i][j] = float(e.evalf(30, subs=m)) if e != 0 else 0.0
        return out

    def fast(self, M):
        """a plain-python evaluator for repeated numeric use inside reference
        integrations (sympy's own printer + math, not the library's compile path)"""
        import math
        args = self.xs + [self.t] + self.ps
        names = ["_a%d" % i for i in range(len(args))]
        ren = {a: sp.Symbol(n) for a, n in zip(args, names)}
        rows, cols = M.shape
        body = []
        for i in range(rows):
            body.append("[" + ",".join(sp.pycode(M[i, j].xreplace(ren)) for j in range(cols)) + "]")
        src = "lambda %s: [%s]" % (",".join(names), ",".join(body))
        fn = eval(src, {"math": math})
        return lambda x, t, theta: fn(*(list(x) + [t] + list(theta)))


def rename(expr_or_matrix, ref):
    """map the symbols of a library expression onto the reference symbols by name"""
    byname = {s.name: s for s in ref.xs + ref.ps + [ref.t]}

    def ren(e):
        e = sp.sympify(e)
        m = {s: byname[s.name] for s in e.free_symbols if s.name in byname}
        return e.xreplace(m)
    if hasattr(expr_or_matrix, "shape"):
        return expr_or_matrix.applyfunc(ren)
    return ren(expr_or_matrix)


def is_zero(e, ref=None, tries=3):
    """decide e == 0: cheap structural attempts first, then numeric probes as a last resort
    (returns True/False, and 'unknown' is treated as numeric verdict)"""
    e = sp.sympify(e)
    if e == 0:
        return True
    e2 = sp.expand(e)
    if e2 == 0:
        return True
    e3 = sp.simplify(e2)
    if e3 == 0:
        return True
    # numeric probes at asymmetric rational points
    syms = sorted(e3.free_symbols, key=lambda s: s.name)
    for k in range(tries):
        m = {s: sp.Rational(7 + 3 * i + 5 * k, 11 + 2 * i + k) for i, s in enumerate(syms)}
        v = e3.evalf(30, subs=m)
        if abs(v) > 1e-20:
            return False
    return True
