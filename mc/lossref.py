"""independent loss formulas (math.lgamma/log only) and their derivatives w.r.t. the prediction"""
import math

import numpy as np

LOSSES = ["Square", "Normal", "Poisson", "Gamma", "NegBinom"]
SPREAD_KW = {"Normal": "sigma", "Gamma": "shape", "NegBinom": "k"}
DEFAULT_SPREAD = {"Normal": 1.0, "Gamma": 2.0, "NegBinom": 1.0}


def loss_value(kind, y, yhat, w=None, spread=None):
    y = np.asarray(y, float)
    yhat = np.asarray(yhat, float)
    w = np.ones_like(y) if w is None else np.broadcast_to(np.asarray(w, float), y.shape)
    s = np.full(y.shape, DEFAULT_SPREAD.get(kind, 1.0)) if spread is None else np.broadcast_to(np.asarray(spread, float), y.shape)
    tot = 0.0
    for yy, mm, ww, ss in zip(y.ravel(), yhat.ravel(), w.ravel(), s.ravel()):
        if kind == "Square":
            tot += (ww * (yy - mm)) ** 2
        elif kind == "Normal":
            tot += 0.5 * math.log(2 * math.pi) + math.log(ss) + (ww * (yy - mm)) ** 2 / (2 * ss ** 2)
        elif kind == "Poisson":
            tot += mm - yy * math.log(mm) + math.lgamma(yy + 1)
        elif kind == "Gamma":
            tot += math.lgamma(ss) - (ss - 1) * math.log(yy) + ss * math.log(mm / ss) + ss * yy / mm
        elif kind == "NegBinom":
            tot += -(math.lgamma(ss + yy) - math.lgamma(ss) - math.lgamma(yy + 1) + ss * math.log(ss / (ss + mm)) + yy * math.log(mm / (ss + mm)))
        else:
            raise ValueError(kind)
    return tot


def dloss_dyhat(kind, y, yhat, w=None, spread=None):
    """elementwise derivative of the (weighted, where the cost uses weights) loss w.r.t. the prediction"""
    y = np.asarray(y, float)
    yhat = np.asarray(yhat, float)
    w = np.ones_like(y) if w is None else np.broadcast_to(np.asarray(w, float), y.shape)
    s = np.full(y.shape, DEFAULT_SPREAD.get(kind, 1.0)) if spread is None else np.broadcast_to(np.asarray(spread, float), y.shape)
    if kind == "Square":
        return -2 * w ** 2 * (y - yhat)
    if kind == "Normal":
        return -w ** 2 * (y - yhat) / s ** 2
    if kind == "Poisson":
        return 1 - y / yhat
    if kind == "Gamma":
        return s * (yhat - y) / yhat ** 2
    if kind == "NegBinom":
        return s * (yhat - y) / (yhat * (s + yhat))
    raise ValueError(kind)


def make_loss(kind, theta, ode, x0, t0, t, y, state_name, state_weight=None, spread=None, target_param=None, target_state=None):
    from pygom.loss import ode_loss
    cls = getattr(ode_loss, kind + "Loss")
    kw = dict(state_weight=state_weight, target_param=target_param, target_state=target_state)
    if kind in SPREAD_KW and spread is not None:
        kw[SPREAD_KW[kind]] = spread
    return cls(theta, ode, x0, t0, t, y, state_name, **kw)
