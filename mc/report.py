"""Run bookkeeping shared by all checks: evidence file, violation artefacts,
known-findings matching, exit status."""
import hashlib
import json
import os
import sys
import time

from . import env

EVID = os.environ.get("VERIF_EVIDENCE_DIR") or os.path.join(env.VERIF, "evidence")
REPLAYS = os.environ.get("VERIF_REPLAY_DIR") or os.path.join(env.VERIF, "replays")
KNOWN = os.path.join(env.VERIF, "known_findings.json")
# replay mode (./check <ID> --replay <file>): the check is run again with the tier and seed recorded in the file and only
# violations carrying the file's signature count; evidence goes to a scratch directory


def _jsonable(o):
    import numpy as np
    if isinstance(o, (np.integer,)):
        return int(o)
    if isinstance(o, (np.floating,)):
        return float(o)
    if isinstance(o, np.ndarray):
        return o.tolist()
    if isinstance(o, (set, frozenset)):
        return sorted(o, key=str)
    if isinstance(o, bytes):
        return o.decode("latin1")
    return str(o)


def dumps(o, **kw):
    return json.dumps(o, default=_jsonable, **kw)


class HarnessError(Exception):
    """The harness itself cannot be trusted for this run (exit 2, never a VIOLATION)."""


class Run:
    def __init__(self, pid, level, tier=None, seed=None):
        self.pid = pid
        self.level = level
        self.replay = None
        self.replay_file = os.environ.get("VERIF_REPLAY_FILE")
        if self.replay_file:
            with open(self.replay_file) as f:
                self.replay = json.load(f)
            if self.replay.get("property") != pid:
                raise HarnessError("replay file is for %s, not %s" % (self.replay.get("property"), pid))
            tier = self.replay.get("tier", tier)
            seed = self.replay.get("seed", seed)
        self.tier = tier or os.environ.get("VERIF_TIER", "quick")
        if self.tier not in ("quick", "thorough"):
            self.tier = "quick"
        self.seed = int(seed if seed is not None else os.environ.get("VERIF_SEED", "0") or 0)
        self.t0 = time.time()
        self.violations = []          # (signature, case)
        self.known_hits = {}          # finding id -> count
        self.cov = {"evaluations": 0, "distinct_nontrivial": 0, "rule": "", "samples": []}
        self.assumptions = []
        self.counters = {}
        self._known = self._load_known()
        self.max_report = 5

    # ---------------------------------------------------------------- known findings
    def _load_known(self):
        try:
            with open(KNOWN) as f:
                data = json.load(f)
        except FileNotFoundError:
            return []
        return [k for k in data.get("known", []) if k.get("property") == self.pid]

    def match_known(self, sig):
        """sig: dict describing the failing case.  A known finding matches when every
        key of its 'signature' equals the corresponding key of sig."""
        for k in self._known:
            s = k.get("signature", {})
            if s and all(sig.get(a) == b for a, b in s.items()):
                return k
        return None

    # ---------------------------------------------------------------- recording
    def count(self, key, n=1):
        self.counters[key] = self.counters.get(key, 0) + n

    def violation(self, sig, case):
        """sig: small dict (call site, structural class).  case: full replayable case."""
        k = self.match_known(sig)
        if k is not None:
            self.known_hits.setdefault(k["id"], [k, 0])[1] += 1
            return False
        self.violations.append((sig, case))
        return True

    def sample(self, s, cap=3):
        if len(self.cov["samples"]) < cap:
            self.cov["samples"].append(s)

    # ---------------------------------------------------------------- finish
    def finish_replay(self):
        want = dumps(self.replay["signature"], sort_keys=True)
        hits = [(sg, cs) for sg, cs in self.violations if dumps(sg, sort_keys=True) == want]
        print("replay of %s by re-running the check (tier=%s seed=%d) and keeping only this signature: %s" % (self.replay_file, self.tier, self.seed, want[:400]))
        if not hits:
            print("replay: the recorded violation is NOT reproduced on this tree (%d other violating cases)" % len(self.violations))
            return 0
        print("replay: reproduced, %d case(s) with this signature; first case:" % len(hits))
        print(dumps(hits[0][1], indent=1, sort_keys=True)[:3000])
        print("VIOLATION property=%s replay=%s" % (self.pid, self.replay_file))
        return 1

    def finish(self, extra_cov=None, exhaustive=None):
        if self.replay is not None:
            return self.finish_replay()
        os.makedirs(EVID, exist_ok=True)
        cov = dict(self.cov)
        if extra_cov:
            cov.update(extra_cov)
        if exhaustive is not None:
            cov["exhaustive"] = bool(exhaustive)
        if self.counters:
            cov["feature_counts"] = dict(sorted(self.counters.items()))
        cov["repo_head"] = env.repo_head()
        cov["repo_dirty"] = env.repo_dirty()
        if not cov["samples"]:
            cov["samples"] = ["(none recorded)"]
        ev = {
            "property_id": self.pid,
            "tier": self.tier,
            "seed": self.seed,
            "level": self.level,
            "coverage": cov,
            "assumptions": self.assumptions,
            "wall_s": round(time.time() - self.t0, 3),
            "violations": len(self.violations),
            "known_findings_hit": {k: v[1] for k, v in self.known_hits.items()},
        }
        tmp = os.path.join(EVID, self.pid + ".json.tmp%d" % os.getpid())
        with open(tmp, "w") as f:
            f.write(dumps(ev, indent=1))
        os.replace(tmp, os.path.join(EVID, self.pid + ".json"))
        for kid, (k, n) in sorted(self.known_hits.items()):
            print("KNOWN-FINDING: property=%s %s (%s; %d cases)" % (self.pid, kid, k.get("what", ""), n))
        if self.violations:
            os.makedirs(REPLAYS, exist_ok=True)
            seen = set()
            shown = 0
            for sig, case in self.violations:
                key = dumps(sig, sort_keys=True)
                if key in seen:
                    continue
                seen.add(key)
                body = dumps({"property": self.pid, "tier": self.tier, "seed": self.seed, "signature": sig, "case": case}, indent=1, sort_keys=True)
                h = hashlib.sha1(body.encode()).hexdigest()[:10]
                path = os.path.join(REPLAYS, "%s-%s.json" % (self.pid, h))
                with open(path, "w") as f:
                    f.write(body)
                if shown < self.max_report:
                    print("VIOLATION property=%s replay=%s" % (self.pid, path))
                    print("  signature: " + key[:600])
                    shown += 1
            print("%s: %d violating cases, %d distinct signatures" % (self.pid, len(self.violations), len(seen)))
            return 1
        print("%s OK tier=%s seed=%d evaluations=%s distinct_nontrivial=%s wall=%.1fs" % (
            self.pid, self.tier, self.seed, cov.get("evaluations"), cov.get("distinct_nontrivial"),
            time.time() - self.t0))
        return 0
