"""reference variational equations: dx/dtheta and dx/dx0 from the sympy right-hand side"""
import numpy as np
import sympy as sp

from . import ref


class VarRef:
    def __init__(self, d, second_order=False):
        self.R = R = ref.Ref(d)
        self.d, self.p = len(R.xs), len(R.ps)
        dd, p = self.d, self.p
        J = R.jacobian()
        G = R.grad()
        S = sp.Matrix(dd, p, lambda i, j: sp.Symbol("s_%d_%d" % (i, j), real=True)) if p else sp.zeros(dd, 0)
        Z = sp.Matrix(dd, dd, lambda i, j: sp.Symbol("z_%d_%d" % (i, j), real=True))
        A = J * S + G if p else sp.zeros(dd, 0)
        Bm = J * Z
        self.varz = list(R.xs) + [S[i, j] for j in range(p) for i in range(dd)] + [Z[i, j] for j in range(dd) for i in range(dd)]
        rhs = list(R.f) + [A[i, j] for j in range(p) for i in range(dd)] + [Bm[i, j] for j in range(dd) for i in range(dd)]
        self.second = second_order
        if second_order:
            # H[i][a][b] = d2 x_i / dtheta_a dtheta_b ; full second-order variational equations
            H = [[[sp.Symbol("h_%d_%d_%d" % (i, a, b), real=True) for b in range(p)] for a in range(p)] for i in range(dd)]
            xs, ps = R.xs, R.ps
            for i in range(dd):
                for a in range(p):
                    for b in range(p):
                        e = sum(J[i, k] * H[k][a][b] for k in range(dd))
                        e += sum(sp.diff(R.f[i], xs[k], xs[l]) * S[k, a] * S[l, b] for k in range(dd) for l in range(dd))
                        if second_order != "truncated":
                            # "truncated" leaves out the mixed state-parameter and the parameter-parameter
                            # terms: the system the library is known to integrate (known finding C20/F16)
                            e += sum(sp.diff(R.f[i], xs[k], ps[b]) * S[k, a] for k in range(dd))
                            e += sum(sp.diff(R.f[i], xs[k], ps[a]) * S[k, b] for k in range(dd))
                            e += sp.diff(R.f[i], ps[a], ps[b])
                        rhs.append(e)
                        self.varz.append(H[i][a][b])
        self.has_mixed = any(sp.diff(fi, a, b) != 0 for fi in R.f for a in R.ps for b in list(R.xs) + list(R.ps))
        self.fn = sp.lambdify(self.varz + [R.t] + list(R.ps), rhs, modules="math")

    def solve(self, theta, x0, t0, times):
        """returns X (n,d), S (n,d,p) = dx/dtheta, Z (n,d,d) = dx/dx0 [, H (n,d,p,p)]"""
        from scipy.integrate import solve_ivp
        d, p = self.d, self.p
        init = list(x0) + [0.0] * (d * p) + list(np.eye(d).flatten("F"))
        if self.second:
            init += [0.0] * (d * p * p)
        times = np.asarray(times, float)
        sol = solve_ivp(lambda t, y: self.fn(*(list(y) + [t] + list(theta))), (t0, float(times[-1]) + 1e-12), init,
                        method="DOP853", rtol=1e-12, atol=1e-14, t_eval=times)
        if not sol.success:
            raise RuntimeError("reference variational integration failed")
        Y = sol.y.T
        n = len(times)
        X = Y[:, :d]
        S = Y[:, d:d + d * p].reshape(n, p, d).transpose(0, 2, 1) if p else np.zeros((n, d, 0))
        Z = Y[:, d + d * p:d + d * p + d * d].reshape(n, d, d).transpose(0, 2, 1)
        if self.second:
            H = Y[:, d + d * p + d * d:].reshape(n, d, p, p)
            return X, S, Z, H
        return X, S, Z
