"""Stochastic-simulation exploration shared by C04, C05, C10, C11, C15, C16.

Reference CTMC semantics are computed from the definition alone (ref.Ref); the real
code is run under the scheduler and must reproduce the reference for the same answers."""
import itertools
import math

import numpy as np

from . import build, env, ref, sched

REL = 1e-9
EXEC_TIMEOUT = 20.0


class RefSim:
    """reference stepper for one (definition, theta)"""

    def __init__(self, d, theta, order=None):
        self.d = d
        self.R = ref.Ref(d)
        self.theta = list(theta)
        ne = self.R.a.shape[0]
        self.order = list(order) if order is not None else list(range(ne))
        self.afn = self.R.fast(self.R.a) if ne else (lambda x, t, th: [])
        # numeric V (may depend on parameters only through symbolic magnitudes)
        self.Vfn = self.R.fast(self.R.V)
        self.ns = len(self.R.states)
        self.ne = ne
        # which events have a rate that depends on time explicitly (in the model's event order)
        self.tdep = [bool(self.R.a[i].has(self.R.t)) for i in self.order] if ne else []
        self.hybrid = bool(d.get("odes"))
        self.purefn = self.R.fast(self.R.pure) if self.hybrid else None
        lims = d.get("limits") or [None] * self.ns
        self.lims = [(0, None) if l is None else tuple(l) for l in lims]

    def rates(self, x, t):
        try:
            r = [row[0] for row in self.afn(x, t, self.theta)]
            r = [float(r[i]) for i in self.order]
        except (ZeroDivisionError, OverflowError, ValueError):
            return [-1.0] * self.ne        # outside the domain of the rate expressions
        if any(v != v for v in r):
            return [-1.0] * self.ne
        return r

    def V(self, x, t):
        V = self.Vfn(x, t, self.theta)
        return [[V[i][e] for e in self.order] for i in range(self.ns)]

    def legal(self, x):
        for v, (lo, hi) in zip(x, self.lims):
            if lo is not None and v < lo:
                return False
            if hi is not None and v > hi:
                return False
        return True

    def apply(self, x, t, counts, tau=None):
        """x + V*counts (+ explicit ODE terms * tau for a tau-leap of a hybrid model)"""
        V = self.V(x, t)
        xn = [x[i] + sum(V[i][e] * counts[e] for e in range(self.ne)) for i in range(self.ns)]
        if self.hybrid and tau is not None:
            p = self.purefn(x, t, self.theta)
            xn = [xn[i] + float(p[i][0]) * tau for i in range(self.ns)]
        return xn


class Skip(Exception):
    """an execution that is not judged (left the domain / cut at the draw horizon)"""

    def __init__(self, why):
        super().__init__(why)
        self.why = why


class Mismatch(Exception):
    def __init__(self, what, **kw):
        super().__init__(what)
        self.what = what
        self.detail = kw


def close(a, b, rel=REL):
    return abs(a - b) <= rel * (1.0 + abs(a) + abs(b))


def ref_exact_step(rs, x, t, log, pos):
    """consume the exponential block for state x; return (pos, winner, dt) or raise"""
    r = rs.rates(x, t)
    clocks = []
    for e in range(rs.ne):
        if r[e] > 0:
            if pos >= len(log):
                raise Mismatch("missing-draw", want="exp for event %d" % e, state=x, t=t)
            kind, arg, val = log[pos]
            if kind != "exp":
                raise Mismatch("wrong-draw-kind", want="exp", got=kind, state=x, t=t)
            if not close(arg, 1.0 / r[e]):
                raise Mismatch("wrong-exp-scale", event=e, want=1.0 / r[e], got=arg, state=x, t=t)
            clocks.append(val)
            pos += 1
        else:
            clocks.append(math.inf)
    w = min(range(rs.ne), key=lambda e: clocks[e])
    return pos, w, clocks[w]


def ref_path(rs, x0, t0, T, exact, log, pre_tau=None, partial=False, stop_at_log_end=False):
    """Replay the reference process against the draw log of the implementation.
    Returns dict(X, J, T, end, used) or raises Mismatch.  partial=True: the log may continue
    (draws of the next run of an ensemble); 'used' is the number of draws this run consumed."""
    x = [int(v) if float(v).is_integer() else float(v) for v in x0]
    t = float(t0)
    X, TT, J, DT = [list(x)], [t], [], []
    pos = 0
    end = "horizon"
    while t < T:
        if stop_at_log_end and pos >= len(log):
            end = "log-end"
            break
        if T - t <= 1e-9 * (1 + abs(T)):
            # the loop condition would be decided by rounding of the accumulated time
            raise Skip("time-within-rounding-of-horizon")
        r = rs.rates(x, t)
        if any(v < 0 for v in r):
            raise Mismatch("harness-negative-rate", state=x, t=t, rates=r)
        if all(v == 0 for v in r):
            end = "no-event"
            break
        took = False
        if not exact:
            blk = log[pos:pos + rs.ne]
            if len(blk) < rs.ne or any(b[0] != "pois" for b in blk):
                raise Mismatch("tau-draw-block", want="%d poisson draws" % rs.ne,
                               got=[b[0] for b in blk], state=x, t=t)
            # the step size is read off the requested means; an event whose rate does not depend on time is preferred
            # (dividing by a time-dependent rate feeds the rounding of the accumulated time back into the step size)
            cand = [e for e in range(rs.ne) if r[e] > 0]
            pref = [e for e in cand if not rs.tdep[e]] or cand
            tau = blk[pref[0]][1] / r[pref[0]]
            if pre_tau is not None and close(tau, pre_tau, 1e-12):
                tau = pre_tau          # the fixed step itself, not the value inferred from lam/r
            if not (tau > 0 and math.isfinite(tau)):
                raise Mismatch("tau-not-positive", tau=tau, state=x, t=t)
            for e, b in enumerate(blk):
                if not close(b[1], tau * r[e], 1e-6 if rs.tdep[e] else REL):
                    raise Mismatch("wrong-poisson-mean", event=e, want=tau * r[e], got=b[1], state=x, t=t)
            n = [int(b[2]) for b in blk]
            pos += rs.ne
            xn = rs.apply(x, t, n, tau=tau)
            if rs.legal(xn):
                x, t = xn, t + tau
                X.append(list(x)); TT.append(t); J.append(n); DT.append(tau)
                took = True
        if not took:
            pos, w, dt = ref_exact_step(rs, x, t, log, pos)
            n = [0] * rs.ne
            n[w] = 1
            xn = rs.apply(x, t, n)
            if not rs.legal(xn):
                end = "illegal"
                break
            x, t = xn, t + dt
            X.append(list(x)); TT.append(t); J.append(n); DT.append(dt)
    if pos != len(log) and not partial:
        raise Mismatch("extra-draws", used=pos, made=len(log), next=log[pos][0])
    return {"X": X, "T": TT, "J": J, "DT": DT, "end": end, "used": pos}


def check_raw_path(rs, x0, t0, T, exact, out, log, pre_tau=None, partial=False, used=None):
    """out = (X, J, T) arrays of one run from solve_stochast(T scalar, full_output).
    Returns None or a Mismatch describing the first discrepancy.  With partial=True the number of
    draws consumed is appended to the list `used`."""
    try:
        rp = ref_path(rs, x0, t0, T, exact, log, pre_tau=pre_tau, partial=partial)
        if used is not None:
            used.append(rp["used"])
    except Mismatch as m:
        return m
    X, J, TT = out
    X = np.asarray(X); TT = np.asarray(TT, float)
    J = np.asarray(J)
    try:
        if X.ndim != 2 or X.shape[1] != rs.ns:
            raise Mismatch("state-shape", shape=X.shape)
        if len(TT) != X.shape[0]:
            raise Mismatch("time-length", nT=len(TT), nX=X.shape[0])
        if not np.array_equal(X[0], np.asarray(x0)):
            raise Mismatch("first-row-not-x0", got=X[0].tolist())
        if TT[0] != t0:
            raise Mismatch("first-time-not-t0", got=float(TT[0]))
        if np.any(np.diff(TT) <= 0):
            raise Mismatch("times-not-increasing", T=TT.tolist())
        nstep = X.shape[0] - 1
        if nstep:
            if J.ndim != 2 or J.shape != (nstep, rs.ne):
                raise Mismatch("jump-shape", shape=J.shape, steps=nstep)
            if np.any(J < 0) or np.any(J != np.round(J)):
                raise Mismatch("counts-not-natural", J=J.tolist())
            if exact and not np.all(J.sum(axis=1) == 1):
                raise Mismatch("exact-not-one-event", J=J.tolist())
            for k in range(nstep if not rs.hybrid else 0):
                exp_dx = np.asarray(rs.apply(X[k].tolist(), TT[k], J[k].tolist())) - X[k]
                if not np.array_equal(X[k + 1] - X[k], exp_dx):
                    raise Mismatch("dx-not-V-counts", step=k, dx=(X[k + 1] - X[k]).tolist(), want=exp_dx.tolist())
        elif J.size:
            raise Mismatch("jump-shape", shape=J.shape, steps=0)
        # equality with the reference path for the same answers
        if len(rp["X"]) != X.shape[0]:
            raise Mismatch("path-length", got=X.shape[0], want=len(rp["X"]), end=rp["end"])
        if not (np.allclose(X, np.asarray(rp["X"], float), rtol=0, atol=1e-9) if rs.hybrid
                else np.array_equal(X, np.asarray(rp["X"]))):
            raise Mismatch("path-states", got=X.tolist(), want=rp["X"])
        if not np.allclose(TT, rp["T"], rtol=1e-12, atol=1e-12):
            raise Mismatch("path-times", got=TT.tolist(), want=rp["T"])
        if nstep and not np.array_equal(J, np.asarray(rp["J"])):
            raise Mismatch("path-counts", got=J.tolist(), want=rp["J"])
        # termination condition
        if not (TT[-1] >= T or rp["end"] in ("no-event", "illegal")):
            raise Mismatch("stopped-early", last_t=float(TT[-1]), T=T)
        for row in X:
            if not rs.legal(row.tolist()):
                raise Mismatch("state-outside-limits", row=row.tolist(), limits=rs.lims)
    except Mismatch as m:
        return m
    return None


# ----------------------------------------------------------------------------- L2
class Config:
    """one simulation configuration (picklable)"""

    def __init__(self, d, theta, x0, T, mode, t0=0.0, grid=None, name="", menu=None):
        self.d, self.theta, self.x0, self.T, self.mode, self.t0 = d, list(theta), list(x0), T, mode, t0
        self.grid = grid
        self.name = name
        self.menu = menu          # None: the small absolute poisson menu; "relative": answers stated relative to the mean

    @property
    def pois_menu(self):
        return sched.POIS_MENU_REL if self.menu == "relative" else None

    def pre_tau(self):
        return self.mode[1] if self.mode[0] == "tau_fixed" else None

    def key(self):
        return {"name": self.name, "def": self.d, "theta": self.theta, "x0": self.x0, "T": self.T,
                "mode": self.mode, "t0": self.t0, "grid": self.grid, "menu": self.menu}


def probe_horizon(args):
    """worker for the large-population leg: run the all-default execution of cfg for `nsteps` accepted steps and return
    a horizon lying strictly between the time of step `nsteps` - 1 and step `nsteps` (None when the path ends earlier).
    The horizon is an input of the exploration, not a verdict: whatever the implementation does, the explored executions
    are judged against the reference for that horizon."""
    cfg, nsteps = args
    try:
        m, order = make_model(cfg)
        rs = RefSim(cfg.d, cfg.theta, order)
        probe = Config(cfg.d, cfg.theta, cfg.x0, 1.0e9, cfg.mode, t0=cfg.t0, name=cfg.name, menu=cfg.menu)
        s = run_l2(m, probe, [], horizon=(2 * nsteps + 2) * rs.ne)
        TT = None
        # the reference reads the same draws (the log is cut at the draw horizon, possibly inside a block)
        for k in range(len(s.log), max(0, len(s.log) - 3 * rs.ne - 1), -1):
            try:
                TT = ref_path(rs, cfg.x0, cfg.t0, 1.0e9, False, s.log[:k], pre_tau=cfg.pre_tau(), stop_at_log_end=True)["T"]
                break
            except (Mismatch, Skip):
                continue
        if not TT or len(TT) <= nsteps:
            return None
        return 0.5 * (TT[nsteps - 1] + TT[nsteps])
    except Exception:
        return None


def x0_dtype(cfg):
    """the initial state is handed over float-typed or integer-typed (head counts), decided by a hash of the configuration
    name; models with explicit ODE terms always float"""
    import zlib
    if cfg.d.get("odes") or any(float(v) != int(v) for v in cfg.x0):
        return float
    return int if (zlib.crc32(cfg.name.encode()) & 1) else float


def make_model(cfg):
    m, order = build.build(cfg.d)
    m.parameters = list(cfg.theta)
    m.initial_values = (np.array(cfg.x0, dtype=x0_dtype(cfg)), np.float64(cfg.t0))
    mode = cfg.mode
    if mode[0] == "tau_fixed":
        m.pre_tau = mode[1]
    elif mode[0] == "tau_adaptive":
        m._epsilon = mode[1]
    return m, order


def run_l2(m, cfg, prefix, horizon=400, iteration=1):
    """one controlled execution of solve_stochast; returns the scheduler with .out/.error"""
    s = sched.Sched(prefix, horizon=horizon, pois_menu=getattr(cfg, "pois_menu", None) or sched.POIS_MENU)
    s.out = None
    s.error = None
    exact = cfg.mode[0] == "exact"
    t_arg = cfg.T if cfg.grid is None else cfg.grid
    import io, contextlib, signal

    def _alarm(signum, frame):
        raise TimeoutError("no return within %s s of processor time" % EXEC_TIMEOUT)
    # processor time of this process, not wall time: a loaded machine must not turn into a verdict
    old = signal.signal(signal.SIGPROF, _alarm)
    signal.setitimer(signal.ITIMER_PROF, EXEC_TIMEOUT)
    try:
        with sched.owned(s), contextlib.redirect_stdout(io.StringIO()):
            s.out = m.solve_stochast(t_arg, iteration, exact=exact, full_output=True)
    except sched.HorizonExceeded as e:
        s.error = ("horizon", str(e))
    except TimeoutError as e:
        s.error = ("timeout", str(e))
    except Exception as e:       # the property says the call returns
        s.error = ("exception", "%s: %s" % (type(e).__name__, e))
    finally:
        signal.setitimer(signal.ITIMER_PROF, 0)
        signal.signal(signal.SIGPROF, old)
    return s


THETA = {"beta": 0.5, "gamma": 0.3, "mu": 0.2, "kappa": 0.4, "omega": 0.6}


def theta_for(d, alt=0):
    base = [THETA[p] for p in d["params"]]
    if alt:
        base = [v * (1.0 + 0.37 * ((i + alt) % 3)) for i, v in enumerate(base)]
    return base


def legal_x0(d, x0):
    lims = d.get("limits") or [None] * len(x0)
    out = []
    for v, l in zip(x0, lims):
        lo, hi = (0, None) if l is None else l
        if lo is not None and v < lo:
            v = lo
        if hi is not None and v > hi:
            v = hi
        out.append(int(v))
    return out


X0S = {1: [[3], [1]], 2: [[3, 1], [1, 2]], 3: [[3, 1, 0], [2, 1, 1]], 4: [[2, 1, 0, 1], [1, 1, 1, 1]],
       5: [[2, 1, 0, 1, 0], [1, 1, 1, 1, 1]]}


def explore_config(args):
    """worker: explore one configuration exhaustively within the deviation bound.
    args = (cfg, bound, max_exec, oracle_name).  Returns a stats dict."""
    cfg, bound, max_exec, oracle_name = args
    oracle = ORACLES[oracle_name]
    st = {"cfg": cfg.name, "executions": 0, "violations": [], "outcomes": set(), "ends": {},
          "draws_max": 0, "capped": False, "sample": None, "steps": 0, "errors": 0, "skipped": None,
          "fallbacks": 0, "illegal_ends": 0, "unjudged": {}}
    try:
        m, order = make_model(cfg)
        rs = RefSim(cfg.d, cfg.theta, order)
    except Exception as e:
        st["skipped"] = "build: %s: %s" % (type(e).__name__, e)
        return st
    # configurations whose reference rates can be negative at the start are not simulable
    r0 = rs.rates(cfg.x0, cfg.t0)
    if any(v < 0 for v in r0):
        st["skipped"] = "negative rate at x0"
        return st

    def run(prefix):
        return run_l2(m, cfg, prefix, horizon=getattr(cfg, "horizon", None) or 400)

    def on_exec(s):
        st["executions"] += 1
        st["draws_max"] = max(st["draws_max"], len(s.choices))
        try:
            v = oracle(cfg, rs, s)
            if v is not None and v.what == "harness-negative-rate":
                raise Skip("out-of-domain")
        except Skip as sk:
            st["unjudged"][sk.why] = st["unjudged"].get(sk.why, 0) + 1
            v = None
        if s.out is not None:
            try:
                X = np.asarray(s.out[0][0])
                st["outcomes"].add(hash(X.tobytes()) ^ hash(tuple(s.choices)) * 0 + hash(X.shape))
                st["steps"] += max(0, X.shape[0] - 1)
            except Exception:
                pass
        if v is not None:
            if len(st["violations"]) < 3:
                st["violations"].append({"what": v.what, "detail": v.detail, "choices": list(s.choices),
                                         "log": s.log[:40]})
            else:
                st["violations"].append(None)
        if st["sample"] is None and len(s.choices) > 2 and s.out is not None:
            st["sample"] = {"cfg": cfg.name, "choices": list(s.choices)[:30],
                            "X": np.asarray(s.out[0][0]).tolist()[:8]}

    try:
        n, capped = sched.explore(run, bound, on_exec, max_exec=max_exec)
        st["capped"] = capped
    except Exception as e:
        st["skipped"] = "explore: %s: %s" % (type(e).__name__, e)
    st["n_outcomes"] = len(st["outcomes"])
    st["outcomes"] = None
    nv = len(st["violations"])
    st["violations"] = [v for v in st["violations"] if v is not None]
    st["n_violations"] = nv
    return st


def triage_error(cfg, rs, s):
    """An execution that did not return normally.  A draw-horizon cut is a violation only
    if the reference process had already terminated on the draws made so far."""
    exact = cfg.mode[0] == "exact"
    if s.error[0] == "horizon":
        try:
            ref_path(rs, cfg.x0, cfg.t0, cfg.T, exact, s.log, pre_tau=cfg.pre_tau())
        except Mismatch as m:
            if m.what in ("missing-draw", "tau-draw-block"):
                raise Skip("cut-at-draw-horizon")
            if m.what == "harness-negative-rate":
                raise Skip("out-of-domain")
            if m.what == "extra-draws":
                return Mismatch("did-not-return:still-drawing-after-the-path-ended", **m.detail)
            return m
        return Mismatch("did-not-return:horizon", error=s.error[1])
    # a crash after the path has left the domain of non-negative rates (only possible when the
    # user declared no lower limit for a state) is not judged
    try:
        ref_path(rs, cfg.x0, cfg.t0, cfg.T, exact, s.log, pre_tau=cfg.pre_tau())
    except Mismatch as m:
        if m.what == "harness-negative-rate":
            raise Skip("out-of-domain")
    except Skip:
        pass
    return Mismatch("did-not-return:" + s.error[0], error=s.error[1])


def oracle_c04(cfg, rs, s):
    if s.error is not None:
        return triage_error(cfg, rs, s)
    if s.global_state_touched:
        return Mismatch("harness-global-rng-touched")
    X, J, TT = s.out
    exact = cfg.mode[0] == "exact"
    return check_raw_path(rs, cfg.x0, cfg.t0, cfg.T, exact, (X[0], J[0], TT[0]), s.log, pre_tau=cfg.pre_tau())


ORACLES = {"c04": oracle_c04}


# ----------------------------------------------------------------------------- L1
L1_EXP_VALUES = (0.3137, 0.7391, 1.1873, 2.0129, 3.3371)


def _call_step(fn, args, kwargs, prefix, horizon=64, pois_menu=sched.POIS_MENU, exp_menu=None):
    import io, contextlib
    s = sched.Sched(prefix, horizon=horizon, pois_menu=pois_menu,
                    exp_menu=exp_menu or L1_EXP_VALUES)
    s.ret = None
    s.error = None
    try:
        with sched.owned(s), contextlib.redirect_stdout(io.StringIO()):
            s.ret = fn(*args, **kwargs)
    except Exception as e:
        s.error = "%s: %s" % (type(e).__name__, e)
    return s


def l1_explore(args):
    """Explicit-state search of the jump chain through the real step functions.
    args = (name, d, theta, x0, cap, tau_modes, pois_values).  Breadth-first over integer
    states; from every state the real firstReaction is called for every ordering of the
    enabled clocks and the real tauLeap for every vector of poisson answers; each call is
    compared with the reference step.  Returns stats incl. the implementation-induced
    kernel (requested exponential scales and successor per winning event)."""
    name, d, theta, x0, cap, tau_modes, pois_values = args
    from pygom.model import stochastic_simulation as ss
    st = {"name": name, "states": 0, "transitions": 0, "violations": [], "skipped": None,
          "kernel": {}, "illegal_steps": 0, "tau_fallback_none": 0, "n_viol": 0, "sample": None,
          "capped_states": 0}
    try:
        cfg = Config(d, theta, x0[0] if isinstance(x0[0], (list, tuple)) else x0, 1.0, ("exact",), name=name)
        m, order = make_model(cfg)
        rs = RefSim(d, theta, order)
        m.get_ReactantMatrix()
    except Exception as e:
        st["skipped"] = "build: %s: %s" % (type(e).__name__, e)
        return st
    if "t" in {str(s_) for s_ in rs.R.a.free_symbols}:
        st["skipped"] = "time-dependent rates (covered by whole-execution exploration)"
        return st
    lims = m._state_lims
    t = 0.25

    def viol(what, x, **kw):
        st["n_viol"] += 1
        if len(st["violations"]) < 3:
            st["violations"].append({"what": what, "state": list(x), "detail": kw})

    starts = [tuple(v) for v in (x0 if isinstance(x0[0], (list, tuple)) else [x0])]
    seen = set(starts)
    frontier = list(starts)
    while frontier:
        nxt = []
        for xt in frontier:
            st["states"] += 1
            x = list(xt)
            r = rs.rates(x, t)
            if any(v < 0 for v in r):
                continue
            xa = np.array(x, float)
            enabled = [e for e in range(rs.ne) if r[e] > 0]
            succ = set()
            kern = {"scales": {}, "succ": {}}
            # ---- exact steps: every ordering of the enabled clocks
            if not enabled:
                s = _call_step(ss.firstReaction, (xa.copy(), lims, t, m.vMat, m.eventRateVector), {}, [])
                st["transitions"] += 1
                if s.error or not (isinstance(s.ret, tuple) and len(s.ret) == 5 and s.ret[4] is False):
                    viol("absorbing-state-step", x, ret=repr(s.ret)[:200], error=s.error)
                if s.log:
                    viol("draws-in-absorbing-state", x, log=s.log)
            else:
                K = len(enabled)
                if K > len(L1_EXP_VALUES):
                    perms = [tuple(range(K)), tuple(reversed(range(K)))] + [tuple(((i + k) % K) for i in range(K)) for k in range(1, K)]
                    # beyond 5 enabled events: each event wins once + two full orders
                    perms = [tuple(min(p_, len(L1_EXP_VALUES) - 1) for p_ in p) for p in perms]
                else:
                    perms = list(itertools.permutations(range(K)))
                for perm in perms:
                    xin = xa.copy()
                    s = _call_step(ss.firstReaction, (xin, lims, t, m.vMat, m.eventRateVector), {}, list(perm))
                    st["transitions"] += 1
                    if s.error:
                        viol("exact-step-raised", x, error=s.error, perm=perm)
                        continue
                    if not np.array_equal(xin, xa):
                        viol("input-state-mutated", x, perm=perm)
                    # requests
                    want = [("exp", 1.0 / r[e]) for e in enabled]
                    got = [(k_, a_) for k_, a_, _v in s.log]
                    if len(got) != len(want) or any(g[0] != w[0] or not close(g[1], w[1]) for g, w in zip(got, want)):
                        viol("exact-draw-requests", x, want=want, got=got)
                        continue
                    for e, (_k, a_, _v) in zip(enabled, s.log):
                        kern["scales"][e] = a_
                    vals = [v_ for _k, _a, v_ in s.log]
                    wi = min(range(K), key=lambda i: vals[i])
                    w = enabled[wi]
                    n = [0] * rs.ne
                    n[w] = 1
                    xn = rs.apply(x, t, n)
                    try:
                        t_new, dt, x_new, jumps, success = s.ret
                    except Exception:
                        viol("exact-step-return-shape", x, ret=repr(s.ret)[:200])
                        continue
                    if rs.legal(xn):
                        ok = (success is True and close(t_new, t + vals[wi]) and close(dt, vals[wi])
                              and np.array_equal(np.asarray(x_new), np.asarray(xn, float))
                              and list(jumps) == n)
                        if not ok:
                            viol("exact-step-result", x, perm=perm, want={"x": xn, "t": t + vals[wi], "jumps": n},
                                 got={"x": np.asarray(x_new).tolist(), "t": t_new, "jumps": list(jumps), "success": success})
                        kern["succ"][w] = xn
                        succ.add(tuple(int(v) for v in xn))
                    else:
                        st["illegal_steps"] += 1
                        ok = (success is False and np.array_equal(np.asarray(x_new), xa) and t_new == t)
                        if not ok:
                            viol("illegal-step-not-refused", x, perm=perm, proposal=xn,
                                 got={"x": np.asarray(x_new).tolist(), "t": t_new, "success": success})
                        kern["succ"][w] = None
            # ---- tau-leap steps: every vector of poisson answers
            if enabled:
                for tm in tau_modes:
                    kw = {"epsilon": 0.03, "seed": None, "pre_tau": None}
                    if tm[0] == "tau_fixed":
                        kw["pre_tau"] = tm[1]
                    else:
                        kw["epsilon"] = tm[1]
                    menus = [range(len(pois_values)) if r[e] > 0 else [0] for e in range(rs.ne)]
                    for pre in itertools.product(*menus):
                        xin = xa.copy()
                        s = _call_step(ss.tauLeap, (xin, lims, t, m.vMat, m._lambdaMat, m.eventRateVector,
                                                    m.transitionMean, m.transitionVar, m.pureOdeVector), kw,
                                       list(pre), pois_menu=pois_values)
                        st["transitions"] += 1
                        if s.error:
                            viol("tau-step-raised", x, error=s.error, answers=pre, mode=tm)
                            continue
                        if not np.array_equal(xin, xa):
                            viol("input-state-mutated", x, mode=tm)
                        if isinstance(s.ret, tuple) and len(s.ret) == 3 and s.ret[2] is False and not s.log:
                            st["tau_fallback_none"] += 1     # step-size refinement gave up: no step taken
                            continue
                        if len(s.log) != rs.ne or any(k_ != "pois" for k_, _a, _v in s.log):
                            viol("tau-draw-requests", x, got=[(k_, a_) for k_, a_, _v in s.log], mode=tm)
                            continue
                        taus = [a_ / r[e] for e, (_k, a_, _v) in enumerate(s.log) if r[e] > 0]
                        tau = taus[0]
                        if not (tau > 0 and math.isfinite(tau)) or any(not close(a_, tau * r[e]) for e, (_k, a_, _v) in enumerate(s.log)):
                            viol("tau-poisson-means", x, got=[a_ for _k, a_, _v in s.log], rates=r, mode=tm)
                            continue
                        if tm[0] == "tau_fixed" and tau > tm[1] * (1 + 1e-12):
                            viol("tau-exceeds-fixed-step", x, tau=tau, mode=tm)
                        n = [int(v_) for _k, _a, v_ in s.log]
                        xn = rs.apply(x, t, n, tau=tau)
                        try:
                            t_new, dt, x_new, jumps, success = s.ret
                        except Exception:
                            viol("tau-step-return-shape", x, ret=repr(s.ret)[:200])
                            continue
                        if rs.legal(xn):
                            ok = (success is True and close(t_new, t + tau) and close(dt, tau)
                                  and np.allclose(np.asarray(x_new, float), np.asarray(xn, float), rtol=0, atol=1e-9)
                                  and [int(j) for j in jumps] == n)
                            if not ok:
                                viol("tau-step-result", x, answers=n, want={"x": xn, "t": t + tau},
                                     got={"x": np.asarray(x_new).tolist(), "t": t_new, "jumps": [int(j) for j in jumps], "success": success}, mode=tm)
                            if all(float(v).is_integer() for v in xn):
                                succ.add(tuple(int(v) for v in xn))
                        else:
                            st["illegal_steps"] += 1
                            ok = (success is False and np.array_equal(np.asarray(x_new), xa) and t_new == t)
                            if not ok:
                                viol("illegal-step-not-refused", x, answers=n, proposal=xn, mode=tm,
                                     got={"x": np.asarray(x_new).tolist(), "t": t_new, "success": success})
            st["kernel"][xt] = kern
            if st["sample"] is None and enabled:
                st["sample"] = {"model": name, "state": x, "rates": r, "successors": sorted(succ)[:6]}
            for y in succ:
                if y not in seen:
                    if sum(y) > cap or max(y) > cap or min(y) < -2:
                        st["capped_states"] += 1
                        continue
                    seen.add(y)
                    nxt.append(y)
        frontier = nxt
    return st


def oracle_c11(cfg, rs, s):
    """limits only: every recorded state within its declared limits (lower 0 when none is
    declared); judged on the raw path and, independently, nothing else."""
    if s.error is not None:
        v = triage_error(cfg, rs, s)
        if v is not None and v.what.startswith("did-not-return"):
            # returning is C04's business; a crash caused by leaving the limits shows up as
            # negative rates -> poisson(lam<0); report it here as well
            return v
        return v
    X = np.asarray(s.out[0][0])
    for k, row in enumerate(X):
        if not rs.legal(row.tolist()):
            return Mismatch("state-outside-limits", row=row.tolist(), index=k, limits=rs.lims)
    # a refused step must leave state and time unchanged: the path continues from the same
    # state, so the reference path (which refuses the same steps) must agree
    exact = cfg.mode[0] == "exact"
    return check_raw_path(rs, cfg.x0, cfg.t0, cfg.T, exact, (s.out[0][0], s.out[1][0], s.out[2][0]), s.log, pre_tau=cfg.pre_tau())


def oracle_c10(cfg, rs, s):
    if s.error is not None:
        return triage_error(cfg, rs, s)
    X = np.asarray(s.out[0][0])
    tot = float(np.sum(cfg.x0))
    sums = X.sum(axis=1)
    if not np.all(sums == tot):
        # a path that left the domain of the rate expressions (possible only where the user declared no lower limit:
        # a state below zero makes a rate negative or undefined) is not judged
        try:
            ref_path(rs, cfg.x0, cfg.t0, cfg.T, cfg.mode[0] == "exact", s.log, pre_tau=cfg.pre_tau())
        except Mismatch as m:
            if m.what == "harness-negative-rate":
                raise Skip("out-of-domain")
        except Skip:
            pass
        k = int(np.argmax(sums != tot))
        return Mismatch("population-not-conserved", index=k, row=X[k].tolist(), total=tot)
    return None


ORACLES["c11"] = oracle_c11
ORACLES["c10"] = oracle_c10


# ----------------------------------------------------------------------------- gridded output (C15)
def grid_expectation(rp, grid, V_apply, ne):
    """expected rows/counts of exact-mode gridded output from a reference path"""
    X, T, J = rp["X"], rp["T"], rp["J"]
    rows = []
    for g in grid:
        k = 0
        for i, tt in enumerate(T):
            if tt <= g:
                k = i
        rows.append(X[k])
    counts = []
    for a, b in zip(grid[:-1], grid[1:]):
        c = [0] * ne
        for i, tt in enumerate(T[1:]):
            if a < tt <= b:
                for e in range(ne):
                    c[e] += J[i][e]
        counts.append(c)
    return rows, counts


def oracle_c15(cfg, rs, s):
    if s.error is not None:
        return triage_error(cfg, rs, s)
    exact = cfg.mode[0] == "exact"
    grid = [float(g) for g in cfg.grid]
    try:
        rp = ref_path(rs, cfg.x0, cfg.t0, grid[-1], exact, s.log, pre_tau=cfg.pre_tau())
    except Mismatch as m:
        return m
    Xs, Js, tt = s.out
    X = np.asarray(Xs[0], float)
    Jm = np.asarray(Js[0], float)
    try:
        if not np.array_equal(np.asarray(tt, float), np.asarray(grid)):
            raise Mismatch("returned-times-not-the-grid", got=np.asarray(tt).tolist())
        if X.shape != (len(grid), rs.ns):
            raise Mismatch("row-count", shape=X.shape, want=(len(grid), rs.ns))
        if grid[0] == cfg.t0 and not np.array_equal(X[0], np.asarray(cfg.x0, float)):
            raise Mismatch("first-row-not-x0", got=X[0].tolist())
        if Jm.shape != (len(grid) - 1, rs.ne):
            raise Mismatch("counts-shape", shape=Jm.shape, want=(len(grid) - 1, rs.ne))
        # keep clear of coincidences between event and grid times (measure zero for real draws)
        if exact:
            for tv in rp["T"][1:]:
                if any(abs(tv - g) <= 1e-12 * (1 + abs(g)) for g in grid):
                    raise Skip("event-time-on-grid")
        if exact:
            rows, counts = grid_expectation(rp, grid, rs.apply, rs.ne)
            if not np.array_equal(X, np.asarray(rows, float)):
                k = int(np.argmax(np.any(X != np.asarray(rows, float), axis=1)))
                raise Mismatch("row-not-path-state", k=k, t=grid[k], got=X[k].tolist(), want=rows[k], path_T=rp["T"][:12])
            if not np.array_equal(Jm, np.asarray(counts, float)):
                k = int(np.argmax(np.any(Jm != np.asarray(counts, float), axis=1)))
                raise Mismatch("interval-counts", k=k, got=Jm[k].tolist(), want=counts[k], path_T=rp["T"][:12])
            for k in range(len(grid) - 1):
                dx = np.asarray(rs.apply(X[k].tolist(), grid[k], Jm[k].tolist())) - X[k]
                if not np.allclose(X[k + 1] - X[k], dx, atol=1e-9):
                    raise Mismatch("rows-differ-from-V-counts", k=k, dx=(X[k + 1] - X[k]).tolist(), want=dx.tolist())
        else:
            if np.any(Jm < 0):
                raise Mismatch("negative-counts", J=Jm.tolist())
            # total events reported = events of the underlying leaps that ended inside the grid span
            tot = [0] * rs.ne
            for i, tv in enumerate(rp["T"][1:]):
                if grid[0] <= tv <= grid[-1]:
                    for e in range(rs.ne):
                        tot[e] += rp["J"][i][e]
            if not np.allclose(Jm.sum(axis=0), tot):
                raise Mismatch("tau-total-counts", got=Jm.sum(axis=0).tolist(), want=tot)
    except Mismatch as m:
        return m
    return None


ORACLES["c15"] = oracle_c15
