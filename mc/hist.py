"""E2: history explorer.  A state is the history that reaches it; build(hist) replays the
operations on a fresh real object."""
import itertools

import numpy as np

from . import env

EVALUATORS = ["ode", "jacobian", "diff_jacobian", "grad", "grad_jacobian", "transitionJacobian",
              "pureOdeVector", "vMat", "eventRateVector", "transitionMean", "transitionVar"]
X = [1.3, 0.7, 2.1]
T = 0.37

MUTATORS = ["add_transition", "add_event_multi", "add_event_bare", "add_birth", "add_death", "add_ode",
            "ode_list_set", "add_param", "add_event_mu", "add_derived", "add_event_phi", "set_all", "set_partial",
            "set_partial_sym", "set_new_only"]


def base_model(lambda_backend=True):
    pg = env.load_pygom()
    from pygom.model import ode_utils
    m = pg.SimulateOde(["S", "I", "R"], ["beta", "gamma"],
                       event=[pg.Event(rate="beta*S*I", transition_list=[pg.Transition(origin="S", destination="I", transition_type="T")]),
                              pg.Event(rate="gamma*I", transition_list=[pg.Transition(origin="I", destination="R", transition_type="T")])])
    if lambda_backend:
        m._SC = ode_utils.compileCode(backend="lambda")
    m.parameters = [0.5, 0.3]
    return m


def other_model():
    pg = env.load_pygom()
    from pygom.model import ode_utils
    m = pg.SimulateOde(["A", "B"], ["k"], event=[pg.Event(rate="k*A", transition_list=[pg.Transition(origin="A", destination="B", transition_type="T")])])
    m._SC = ode_utils.compileCode(backend="lambda")
    m.parameters = [0.7]
    return m


def enabled(op, hist):
    """preconditions that keep histories inside well-formed definitions"""
    if op in ("add_event_mu", "set_new_only"):
        return "add_param" in hist
    if op == "add_event_phi":
        return "add_derived" in hist
    if op == "add_param":
        return "add_param" not in hist
    if op == "add_derived":
        return "add_derived" not in hist
    return True


def apply(m, op, hist_before, other=None):
    """apply one operation; evaluation ops return ('value', array) or ('raised', type)"""
    pg = env.load_pygom()
    Tn, Ev = pg.Transition, pg.Event
    if op.startswith("eval:"):
        name = op[5:]
        try:
            return ("value", np.asarray(getattr(m, name)(list(X), T), float).copy())
        except Exception as e:
            return ("raised", type(e).__name__)
    if op == "other_eval":
        try:
            other.ode([1.0, 2.0], 0.1)
        except Exception:
            pass
        return None
    if op == "add_transition":
        m.add_transition(Tn(origin="R", destination="S", equation="gamma*R", transition_type="T"))
    elif op == "add_event_multi":
        m.add_event(Ev(rate="beta*I", transition_list=[Tn(origin="I", destination="R", transition_type="T", magnitude="2"),
                                                        Tn(destination="S", transition_type="B")]))
    elif op == "add_event_bare":
        m.add_event(Tn(origin="S", equation="gamma*S", transition_type="D"))
    elif op == "add_birth":
        m.add_birth_death(Tn(destination="S", equation="beta", transition_type="B"))
    elif op == "add_death":
        m.add_birth_death(Tn(origin="I", equation="gamma*I*R", transition_type="D"))
    elif op == "add_ode":
        m.add_ode(Tn(origin="R", equation="-gamma*R*S", transition_type="ODE"))
    elif op == "ode_list_set":
        m.ode_list = [Tn(origin="S", equation="beta*I", transition_type="ODE")]
    elif op == "add_param":
        m.param_list = ["mu"]
    elif op == "add_event_mu":
        m.add_event(Ev(rate="mu*S", transition_list=[Tn(origin="S", destination="R", transition_type="T")]))
    elif op == "add_derived":
        m.derived_param_list = [("phi", "beta*gamma")]
    elif op == "add_event_phi":
        m.add_event(Ev(rate="phi*I*S", transition_list=[Tn(origin="I", destination="S", transition_type="T")]))
    elif op == "set_all":
        n = sum(1 for h in hist_before if h == "set_all")
        vals = [0.9 + 0.1 * n, 0.4, 0.25]
        m.parameters = vals[:m.num_param]
    elif op == "set_partial":
        m.parameters = {"gamma": 0.45}
    elif op == "set_partial_sym":        # the same parameter, keyed by a plain sympy Symbol
        import sympy
        m.parameters = {sympy.Symbol("gamma"): 0.65}
    elif op == "set_new_only":           # only the parameter that was added later
        m.parameters = {"mu": 0.25}
    else:
        raise ValueError(op)
    return None


def same(a, b):
    if a is None or b is None:
        return a is b
    if a[0] != b[0]:
        return False
    if a[0] == "raised":
        return True          # both ill-defined; which exception is not the property's business
    return a[1].shape == b[1].shape and np.allclose(a[1], b[1], rtol=1e-12, atol=1e-14)
