"""./check <ID> --replay <file>: re-execute ONE recorded case without any explorer where the artefact carries
everything needed (a model definition, a history, a configuration plus choice vector); otherwise fall back to the
filtered re-run of the whole check (mc/report.py).  Exit 1 + 'VIOLATION property=<id> replay=<file>' iff reproduced."""
import json
import os
import runpy
import sys

from . import env


def _show(j, viols, path, how):
    print("replay of %s: %s" % (path, how))
    print("recorded signature: " + json.dumps(j.get("signature"), sort_keys=True)[:500])
    if viols:
        print("reproduced: %d violation(s) in this single case; first:" % len(viols))
        print(json.dumps(viols[0], indent=1, sort_keys=True, default=str)[:3000])
        print("VIOLATION property=%s replay=%s" % (j["property"], path))
        return 1
    print("replay: the recorded case shows NO violation on this tree")
    return 0


def single_case(j, path):
    """returns an exit status, or None when this artefact has no single-case replay"""
    pid, case, sig = j["property"], j.get("case") or {}, j.get("signature") or {}
    seed = int(j.get("seed", 0))
    if pid in ("C01", "C03") and "def" in case and "name" in case:
        from . import e1
        env.load_pygom()
        r = e1.check_def((case["name"], case["def"], seed, (pid,), sig.get("backend", "lambda")))
        return _show(j, [v for v in r["viol"] if v["leg"] == pid], path, "definition %s rebuilt and judged alone (%s)" % (case["name"], sig.get("backend")))
    if pid == "C08" and "history" in case:
        env.load_pygom()
        from checks import c08
        r = c08.run_history((tuple(case["history"]), case["start"], None))
        return _show(j, r["viol"], path, "history %s from a %s model replayed alone" % (case["history"], case["start"]))
    if pid in ("C04", "C10", "C11", "C15") and "config" in case and isinstance(case.get("violation"), dict) and "choices" in case["violation"]:
        env.load_pygom()
        from . import stoch
        k = case["config"]
        cfg = stoch.Config(k["def"], k["theta"], k["x0"], k["T"], tuple(k["mode"]), t0=k["t0"], grid=k["grid"], name=k["name"], menu=k.get("menu"))
        m, order = stoch.make_model(cfg)
        rs = stoch.RefSim(cfg.d, cfg.theta, order)
        s = stoch.run_l2(m, cfg, list(case["violation"]["choices"]))
        try:
            v = stoch.ORACLES[pid.lower()](cfg, rs, s)
        except stoch.Skip as sk:
            print("replay: execution not judged (%s)" % sk.why)
            v = None
        print("answers given to the library's draws (kind, argument, value):")
        for a in s.log[:60]:
            print("   ", a)
        return _show(j, [] if v is None else [{"what": v.what, "detail": v.detail}], path,
                     "one execution of solve_stochast under the recorded answer sequence %s" % list(case["violation"]["choices"]))
    if pid in ("C06", "C07", "C18", "C20") and "cfg" in case and "model" in case:
        env.load_pygom()
        import importlib
        import os
        os.environ["VERIF_JOBS"] = "1"
        mod = importlib.import_module("checks." + pid.lower())
        r = mod.job((case["model"], [case["cfg"]], seed))
        viols = [{"signature": sg, "case": cs} for sg, cs in r["viol"] if not (isinstance(sg, dict) and sg.get("what") == "matches-truncated-second-order-system")]
        return _show(j, viols, path, "configuration %s of model %s evaluated alone" % (case["cfg"], case["model"]))
    return None


def main():
    pid, path = sys.argv[1], sys.argv[2]
    with open(path) as f:
        j = json.load(f)
    if j.get("property") != pid:
        print("replay file is for %s, not %s" % (j.get("property"), pid))
        return 2
    rc = single_case(j, path)
    if rc is not None:
        return rc
    # filtered re-run of the whole check with the recorded tier and seed
    os.environ["VERIF_REPLAY_FILE"] = path
    sys.argv = ["checks." + pid.lower()]
    try:
        runpy.run_module("checks." + pid.lower(), run_name="__main__")
    except SystemExit as e:
        return int(e.code or 0)
    return 0


if __name__ == "__main__":
    sys.exit(main())
