"""fixed asymmetric evaluation grid + one seed dependent point"""
import random

XS = [[1.3, 0.7, 2.1, 0.4, 1.9], [0.25, 3.5, 1.1, 2.75, 0.6], [5.0, 1.0, 0.5, 2.0, 3.0]]
TS = [0.37, 1.9, 0.0]
TH = [[0.5, 0.3, 0.2, 0.4, 0.6], [1.7, 0.45, 0.9, 0.15, 1.1], [0.08, 2.3, 0.6, 1.4, 0.35]]


def points(ns, npar, seed=0, n=3):
    pts = []
    for k in range(n):
        pts.append((XS[k][:ns], TS[k], TH[(k + 1) % 3][:npar]))
    rnd = random.Random(1000 + seed)
    pts.append(([round(rnd.uniform(0.2, 4.0), 3) for _ in range(ns)], round(rnd.uniform(0, 3), 3),
                [round(rnd.uniform(0.1, 2.0), 3) for _ in range(npar)]))
    return pts
