"""Bounded exhaustive exploration (model checking) harness for pygom."""
