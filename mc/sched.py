"""E3: the random source as the environment.  Every draw the library makes through
numpy's global functions is answered from a small menu by a Scheduler that replays a
prefix of choices and then takes option 0; a depth-first driver enumerates every choice
sequence with at most `bound` non-default answers (deviation bounding)."""
import contextlib

import numpy as np

EXP_MENU = (0.3137, 0.7391, 1.1873, 1.0e6)
POIS_MENU = (0, 1, 2, 7)          # 7 overshoots every limit used in the small configurations
TIE_EPS = 1.0e-9


def _near_mean(lam):
    return round(lam)


def _above_mean(lam):
    return round(lam) + int(3 * lam ** 0.5) + 1


def _overshoot(lam):
    return 10 ** 7


# answers for configurations with hundreds of individuals, where a leap moves many individuals at once: the rounded
# mean (default), none, a +3 sigma count, and a count beyond every population (the refused-step path)
POIS_MENU_REL = (_near_mean, 0, _above_mean, _overshoot)


class HorizonExceeded(Exception):
    pass


class Sched:
    def __init__(self, prefix=(), horizon=400, exp_menu=EXP_MENU, pois_menu=POIS_MENU, extra=None):
        self.prefix = list(prefix)
        self.horizon = horizon
        self.exp_menu = exp_menu
        self.pois_menu = pois_menu
        self.extra = extra or {}
        self.choices = []     # chosen option index per point
        self.nopts = []       # number of options per point
        self.log = []         # (kind, arg, value)
        self.private_generators = 0

    # --------------------------------------------------------------- choice
    def choose(self, n):
        i = len(self.choices)
        if i >= self.horizon:
            raise HorizonExceeded("more than %d draws requested" % self.horizon)
        if i < len(self.prefix):
            k = self.prefix[i]
            if k >= n:
                raise RuntimeError("replay divergence: choice %d of %d options at point %d" % (k, n, i))
        else:
            k = 0
        self.choices.append(k)
        self.nopts.append(n)
        return k

    # --------------------------------------------------------------- numpy seams
    def exponential(self, scale=1.0, size=None):
        n = 1 if size is None else int(np.prod(size))
        out = []
        for _ in range(n):
            k = self.choose(len(self.exp_menu))
            # a strictly increasing tiny offset keeps all clocks distinct (no ties)
            v = self.exp_menu[k] + TIE_EPS * (len(self.log) % 1000)
            self.log.append(("exp", float(scale), v))
            out.append(v)
        return out[0] if size is None else np.array(out).reshape(size)

    def poisson(self, lam=1.0, size=None):
        n = 1 if size is None else int(np.prod(size))
        out = []
        for _ in range(n):
            lamf = float(lam)
            if lamf == 0.0:
                k = self.choose(1)
                v = 0
            else:
                k = self.choose(len(self.pois_menu))
                v = self.pois_menu[k]
                if callable(v):
                    v = int(v(lamf))       # an answer stated relative to the requested mean (large populations)
            self.log.append(("pois", lamf, v))
            out.append(v)
        return out[0] if size is None else np.array(out).reshape(size)

    def generic(self, kind):
        """a seam for samplers answered from self.extra[kind] = callable(sched, args, kwargs)"""
        def f(*a, **kw):
            return self.extra[kind](self, a, kw)
        return f


class _PrivGen:
    """records construction of private generators (C16) and then behaves normally"""

    def __init__(self, sched, real):
        self.sched, self.real = sched, real

    def __call__(self, *a, **kw):
        self.sched.private_generators += 1
        return self.real(*a, **kw)


_PATCHED = ("exponential", "poisson")


@contextlib.contextmanager
def owned(s, also=()):
    """route numpy's global draw functions to scheduler s"""
    saved = {}
    names = list(_PATCHED) + [a for a in also if a not in _PATCHED]
    for nme in names:
        saved[nme] = getattr(np.random, nme)
    real_rs = np.random.RandomState
    real_rng = np.random.default_rng
    st0 = np.random.get_state()
    try:
        np.random.exponential = s.exponential
        np.random.poisson = s.poisson
        for nme in also:
            if nme not in _PATCHED:
                setattr(np.random, nme, s.generic(nme))
        # RandomState is a class (isinstance checks in test_seed): subclass to count
        sched = s

        class CountingRandomState(real_rs):
            def __init__(self, *a, **kw):
                sched.private_generators += 1
                super().__init__(*a, **kw)
        np.random.RandomState = CountingRandomState
        np.random.default_rng = _PrivGen(s, real_rng)
        yield s
    finally:
        for nme, f in saved.items():
            setattr(np.random, nme, f)
        np.random.RandomState = real_rs
        np.random.default_rng = real_rng
    st1 = np.random.get_state()
    if st0[2] != st1[2] or not np.array_equal(st0[1], st1[1]):
        s.global_state_touched = True
    else:
        s.global_state_touched = False


def explore(run, bound, on_exec, max_exec=None):
    """run(prefix) -> Sched-like object with .choices/.nopts (after the execution) and any
    result fields.  Enumerates all executions with <= bound non-default choices (bound
    None = no bound).  Returns (executions, capped)."""
    stack = [[]]
    n = 0
    capped = False
    while stack:
        prefix = stack.pop()
        x = run(prefix)
        n += 1
        on_exec(x)
        if max_exec is not None and n >= max_exec:
            capped = bool(stack)
            if capped:
                break
        ch, no = x.choices, x.nopts
        if ch[:len(prefix)] != prefix:
            raise RuntimeError("replay divergence: prefix not reproduced")
        dev = sum(1 for c in prefix if c)
        # children: deviate at a later point
        base_dev = dev
        devs_before = base_dev
        for i in range(len(prefix), len(ch)):
            # all choices after the prefix are defaults (0)
            if bound is not None and devs_before + 1 > bound:
                break
            for alt in range(1, no[i]):
                stack.append(ch[:i] + [alt])
    return n, capped
