"""E1 worker: compare everything pygom derives from a definition with the reference."""
import numpy as np
import sympy as sp

from . import build, points, ref

TOL = 1e-9


def _close(a, b, tol=TOL):
    a = np.asarray(a, float)
    b = np.asarray(b, float)
    return a.shape == b.shape and np.all(np.abs(a - b) <= tol * (1.0 + np.abs(b)))


def _shape_to(val, shape):
    v = np.asarray(val, float)
    if v.shape == tuple(shape):
        return v
    if v.size == int(np.prod(shape)):
        return v.reshape(shape)
    return v


def perm_cols(M, order):
    return M.extract(list(range(M.rows)), list(order)) if M.cols else M


def perm_rows(M, order):
    return M.extract(list(order), list(range(M.cols))) if M.rows else M


def sym_equal(lib, want, R):
    """library sympy matrix == reference matrix (after renaming symbols by name)"""
    lib = sp.Matrix(lib)
    if lib.shape != want.shape:
        return False, "shape %s != %s" % (lib.shape, want.shape)
    L = ref.rename(lib, R)
    for i in range(want.rows):
        for j in range(want.cols):
            if not ref.is_zero(L[i, j] - want[i, j]):
                return False, "entry (%d,%d): %s != %s" % (i, j, L[i, j], want[i, j])
    return True, ""


def check_def(args):
    """args = (name, d, seed, legs, backend).  legs subset of {'C01','C03'}.
    Returns dict(viol=[...], nontrivial flags, features)."""
    name, d, seed, legs, backend = args
    out = {"name": name, "viol": [], "skipped": None, "checks": 0, "nontrivial": 0, "features": {}}

    def viol(leg, what, **kw):
        out["viol"].append({"leg": leg, "what": what, "detail": kw})

    keep_alive = None
    if backend == "twin":
        # two live models in one process: the definition as given is built and fully evaluated first and stays alive;
        # what is judged is its twin declared in the opposite order (state shared between model objects would show)
        try:
            keep_alive, _ = build.build(d)
            x_, t_, th_ = points.points(len(d["states"]), len(d["params"]), seed)[1]
            build.touch(keep_alive, x_, t_, th_)
        except Exception:
            pass
        d = build.twin(d)
    try:
        R = ref.Ref(d)
    except Exception as e:
        out["skipped"] = "reference: %s: %s" % (type(e).__name__, e)
        return out
    try:
        if backend == "grown":
            ns_, np_ = len(d["states"]), len(d["params"])
            x_, t_, th_ = points.points(ns_, np_, seed)[1]
            import zlib
            # every other grown definition: another fresh model compiles and evaluates everything in between
            inter = bool((zlib.crc32(name.encode()) >> 9) & 1)
            m, order = build.build_grown(d, x_, t_, th_, interleave_other=inter)
            out["features"]["grown:other-model-in-between" if inter else "grown:alone"] = 1
        else:
            m, order = build.build(d, lambda_backend=(backend != "cython"))
    except Exception as e:
        viol("C01", "construction-raised", error="%s: %s" % (type(e).__name__, e))
        return out
    ns, npar, ne = len(d["states"]), len(d["params"]), len(d["events"])
    V = perm_cols(R.V, order)
    a = perm_rows(R.a, order)
    pts = points.points(ns, npar, seed)
    # ... and the first point once more with the parameter values of the second (same state and time: anything remembered
    # per point across a parameter change would show)
    pts = pts + [(pts[0][0], pts[0][1], pts[1][2])]
    f = out["features"]
    f["events:%d" % ne] = 1
    f["states:%d" % ns] = 1
    f["style:" + d["state_style"]] = 1
    if d["odes"]:
        f["has_ode_terms"] = 1
    if d["derived"]:
        f["has_derived"] = 1
    if any(len(ev["trans"]) > 1 for ev in d["events"]):
        f["multi_transition_event"] = 1
    if any(not str(t[3]).isdigit() for ev in d["events"] for t in ev["trans"]):
        f["symbolic_magnitude"] = 1
    if "t" in {s.name for s in R.f.free_symbols}:
        f["time_dependent"] = 1

    def num_compare(leg, label, fn, want_matrix, shape=None):
        shape = shape or want_matrix.shape
        for (x, t, th) in pts:
            try:
                m.parameters = list(th)
                got = fn(x, t)
            except Exception as e:
                viol(leg, "evaluation-raised", which=label, error="%s: %s" % (type(e).__name__, e), point=[x, t, th])
                return
            want = np.asarray(R.num(want_matrix, x, t, th), float).reshape(shape)
            g = _shape_to(got, shape)
            out["checks"] += 1
            if not _close(g, want):
                viol(leg, "numeric-mismatch", which=label, point=[x, t, th], got=np.asarray(got).tolist(), want=want.tolist())
                return
            if np.any(np.abs(want) > 1e-12):
                out["nontrivial"] += 1

    if "C01" in legs:
        try:
            ok, why = sym_equal(m.get_ode_eqn(), R.f, R)
            if not ok:
                viol("C01", "symbolic-ode", why=why)
            ok, why = sym_equal(m.get_StateChangeMatrix(), V, R)
            if not ok:
                viol("C01", "symbolic-state-change-matrix", why=why)
            ok, why = sym_equal(m.get_EventRateVector(), a, R)
            if not ok:
                viol("C01", "symbolic-event-rate-vector", why=why)
            ok, why = sym_equal(m.get_pureOdeVector(), R.pure, R)
            if not ok:
                viol("C01", "symbolic-pure-ode-vector", why=why)
            # the identity on the library's own objects
            lib_id = sp.Matrix(m.get_StateChangeMatrix()) * sp.Matrix(m.get_EventRateVector()) + sp.Matrix(m.get_pureOdeVector()) \
                if ne else sp.Matrix(m.get_pureOdeVector())
            diff = sp.Matrix(m.get_ode_eqn()) - lib_id
            if any(not ref.is_zero(e) for e in diff):
                viol("C01", "ode-is-not-V-times-rates-plus-explicit-terms", diff=str(list(diff)))
            lam = np.asarray(m.get_ReactantMatrix())
            want = np.array([[R.react[i][e] for e in order] for i in range(ns)], int).reshape(ns, ne)
            if lam.shape != want.shape or not np.array_equal(lam, want):
                viol("C01", "reactant-matrix", got=lam.tolist(), want=want.tolist())
        except Exception as e:
            viol("C01", "symbolic-raised", error="%s: %s" % (type(e).__name__, e))
        num_compare("C01", "ode", m.ode, R.f, (ns,))
        if ne:
            num_compare("C01", "vMat", m.vMat, V, (ns, ne))
            num_compare("C01", "eventRateVector", m.eventRateVector, a, (ne,))
        num_compare("C01", "pureOdeVector", m.pureOdeVector, R.pure, (ns,))
        # ode == V.a + pure on numeric outputs as well
        if ne:
            for (x, t, th) in pts[:2]:
                try:
                    m.parameters = list(th)
                    lhs = np.asarray(m.ode(x, t), float)
                    rhs = _shape_to(m.vMat(x, t), (ns, ne)).dot(np.asarray(m.eventRateVector(x, t), float).ravel()) \
                        + np.asarray(m.pureOdeVector(x, t), float).ravel()
                    if not _close(lhs, rhs):
                        viol("C01", "numeric-identity", point=[x, t, th], ode=lhs.tolist(), V_a_plus_pure=rhs.tolist())
                except Exception as e:
                    viol("C01", "evaluation-raised", which="identity", error="%s: %s" % (type(e).__name__, e))
                    break

    if "C03" in legs:
        J = R.jacobian()
        G = R.grad()
        DJ = R.diff_jacobian()
        GJ = R.grad_jacobian()
        def symcheck(label, getter, want):
            def go():
                try:
                    ok, why = sym_equal(getter(), want, R)
                    if not ok:
                        viol("C03", "symbolic-" + label, why=why)
                except Exception as e:
                    viol("C03", "symbolic-raised", which=label, error="%s: %s" % (type(e).__name__, e))
            return go

        steps = [symcheck("jacobian", m.get_jacobian_eqn, J)]
        if npar:
            steps += [symcheck("grad", m.get_grad_eqn, G), symcheck("grad-jacobian", m.get_grad_jacobian_eqn, GJ)]
        steps.append(symcheck("diff-jacobian", m.get_diff_jacobian_eqn, DJ))
        steps.append(lambda: num_compare("C03", "jacobian", m.jacobian, J, (ns, ns)))
        if npar:
            steps.append(lambda: num_compare("C03", "grad", m.grad, G, (ns, npar)))
            steps.append(lambda: num_compare("C03", "grad_jacobian", m.grad_jacobian, GJ, (ns * npar, ns)))
        steps.append(lambda: num_compare("C03", "diff_jacobian", m.diff_jacobian, DJ, (ns * ns, ns)))
        if ne:
            # Cao's statistics are defined through the rate vector and the state-change matrix
            Rp = _PermRef(R, V, a)
            F = Rp.transition_jacobian()
            steps.append(lambda: num_compare("C03", "transitionJacobian", m.transitionJacobian, F, (ne, ne)))
            steps.append(lambda: num_compare("C03", "transitionMean", m.transitionMean, Rp.transition_mean(), (ne,)))
            steps.append(lambda: num_compare("C03", "transitionVar", m.transitionVar, Rp.transition_var(), (ne,)))
        if backend == "grown":
            # a model reached through a history may answer differently depending on what is asked first: the order of
            # the questions is rotated (and reversed for every other definition) by a hash of the definition's name
            import zlib
            h = zlib.crc32(name.encode())
            k = h % len(steps)
            steps = steps[k:] + steps[:k]
            if (h >> 8) & 1:
                steps.reverse()
            out["features"]["grown:first=%d%s" % (k, "r" if (h >> 8) & 1 else "")] = 1
        for st in steps:
            st()
        # non-triviality: would a transposed jacobian be noticed?
        x, t, th = pts[0]
        Jn = np.asarray(R.num(J, x, t, th))
        if ns > 1 and not np.allclose(Jn, Jn.T):
            out["features"]["jacobian_asymmetric"] = 1
    return out


class _PermRef:
    """view of the reference with events in the model's order"""

    def __init__(self, R, V, a):
        self.R, self.V, self.a, self.xs = R, V, a, R.xs

    def transition_jacobian(self):
        ne, ns = self.a.shape[0], len(self.xs)
        F = sp.zeros(ne, ne)
        for i in range(ne):
            for j in range(ne):
                F[i, j] = sum(sp.diff(self.a[i], self.xs[k]) * self.V[k, j] for k in range(ns))
        return F

    def transition_mean(self):
        F = self.transition_jacobian()
        ne = self.a.shape[0]
        return sp.Matrix([sum(F[i, j] * self.a[j] for j in range(ne)) for i in range(ne)])

    def transition_var(self):
        F = self.transition_jacobian()
        ne = self.a.shape[0]
        return sp.Matrix([sum(F[i, j] ** 2 * self.a[j] for j in range(ne)) for i in range(ne)])
