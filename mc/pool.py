"""One long-lived fork pool; work lists are chunked, results merged in input order."""
import multiprocessing as mp
import os

_POOL = None


def ncpu():
    try:
        n = int(os.environ.get("VERIF_JOBS", "0"))
    except ValueError:
        n = 0
    return n or min(16, os.cpu_count() or 1)


def _init():
    # Workers inherit the loaded pygom through fork; keep BLAS single threaded.
    os.environ["OMP_NUM_THREADS"] = "1"


def pool():
    global _POOL
    if _POOL is None:
        ctx = mp.get_context("fork")
        _POOL = ctx.Pool(ncpu(), initializer=_init)
    return _POOL


def pmap(fn, items, chunksize=None):
    items = list(items)
    if not items:
        return []
    if ncpu() == 1 or len(items) == 1:
        return [fn(i) for i in items]
    if chunksize is None:
        chunksize = max(1, len(items) // (ncpu() * 8))
    return pool().map(fn, items, chunksize)


def close():
    global _POOL
    if _POOL is not None:
        _POOL.close()
        _POOL.join()
        _POOL = None
