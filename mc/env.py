"""Binding to the code under test.

The checks import pygom straight from the working tree of the repository
(``VERIF_REPO``, default /repo) so that whatever is edited there is what gets explored.
The only compiled artefact, ``pygom/model/_tau_leap.pyx``, is rebuilt from the working
tree into /verif/.build/<sha256 of the .pyx>/ when no build for that hash exists, and
injected as ``pygom.model._tau_leap`` before pygom is imported.  Nothing is written
under the repository (bytecode writing is disabled)."""
import hashlib
import importlib.util
import os
import shutil
import subprocess
import sys
import sysconfig
import tempfile

sys.dont_write_bytecode = True
os.environ.setdefault("OMP_NUM_THREADS", "1")
os.environ.setdefault("OPENBLAS_NUM_THREADS", "1")
os.environ.setdefault("PYTHONDONTWRITEBYTECODE", "1")

VERIF = os.path.dirname(os.path.dirname(os.path.abspath(__file__)))
REPO = os.environ.get("VERIF_REPO", "/repo")
SRC = os.path.join(REPO, "src")
BUILD = os.path.join(VERIF, ".build")
GUARD = "PYGOM_VERIF"

_SETUP_TMPL = """
from setuptools import setup, Extension
from Cython.Build import cythonize
import numpy
setup(ext_modules=cythonize([Extension("_tau_leap", ["_tau_leap.pyx"],
      include_dirs=[numpy.get_include()],
      define_macros=[("NPY_NO_DEPRECATED_API", "NPY_1_7_API_VERSION")])],
      language_level=3, quiet=True))
"""


def pyx_path():
    return os.path.join(SRC, "pygom", "model", "_tau_leap.pyx")


def pyx_sha():
    with open(pyx_path(), "rb") as f:
        return hashlib.sha256(f.read()).hexdigest()[:16]


def ext_path(build=True):
    """Return the path of a _tau_leap extension built from the working tree's .pyx."""
    sha = pyx_sha()
    d = os.path.join(BUILD, "tau_leap-" + sha)
    suffix = sysconfig.get_config_var("EXT_SUFFIX")
    so = os.path.join(d, "_tau_leap" + suffix)
    if os.path.exists(so):
        return so
    if not build:
        return None
    os.makedirs(BUILD, exist_ok=True)
    tmp = tempfile.mkdtemp(prefix="tlbuild-", dir=BUILD)
    try:
        shutil.copy(pyx_path(), os.path.join(tmp, "_tau_leap.pyx"))
        with open(os.path.join(tmp, "setup.py"), "w") as f:
            f.write(_SETUP_TMPL)
        r = subprocess.run([sys.executable, "setup.py", "build_ext", "--inplace"],
                           cwd=tmp, stdout=subprocess.PIPE, stderr=subprocess.STDOUT,
                           text=True)
        built = os.path.join(tmp, "_tau_leap" + suffix)
        if r.returncode != 0 or not os.path.exists(built):
            raise RuntimeError("cannot build _tau_leap from working tree:\n" + r.stdout[-3000:])
        os.makedirs(d, exist_ok=True)
        os.replace(built, so)
    finally:
        shutil.rmtree(tmp, ignore_errors=True)
    return so


_loaded = False


def load_pygom():
    """Import pygom from the working tree with a freshly bound extension."""
    global _loaded
    if _loaded:
        import pygom
        return pygom
    os.environ[GUARD] = "1"
    so = ext_path()
    if SRC in sys.path:
        sys.path.remove(SRC)
    sys.path.insert(0, SRC)
    spec = importlib.util.spec_from_file_location("pygom.model._tau_leap", so)
    mod = importlib.util.module_from_spec(spec)
    import numpy  # noqa: F401  (the extension needs numpy initialised)
    spec.loader.exec_module(mod)
    sys.modules["pygom.model._tau_leap"] = mod
    import warnings
    warnings.filterwarnings("ignore")
    import pygom
    here = os.path.realpath(os.path.dirname(pygom.__file__))
    want = os.path.realpath(os.path.join(SRC, "pygom"))
    if here != want:
        raise RuntimeError("pygom imported from %s, expected %s" % (here, want))
    import pygom.model.stochastic_simulation as ss
    if ss._cy_test_tau_leap_safety is not mod._cy_test_tau_leap_safety:
        raise RuntimeError("tau-leap extension binding failed")
    _loaded = True
    return pygom


def repo_head():
    try:
        return subprocess.run(["git", "-C", REPO, "rev-parse", "--short", "HEAD"],
                              stdout=subprocess.PIPE, text=True).stdout.strip()
    except Exception:
        return "unknown"


def repo_dirty():
    try:
        out = subprocess.run(["git", "-C", REPO, "status", "--porcelain", "--untracked-files=no"],
                             stdout=subprocess.PIPE, text=True).stdout.strip()
        return bool(out)
    except Exception:
        return False
