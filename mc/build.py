"""Build a real pygom model from a definition (see ref.py) through a chosen API route."""
from . import env


def _tr(pg, typ, o, d, mag, eq=None, birth_by_origin=False):
    T = pg.Transition
    kw = {"transition_type": typ}
    if str(mag) != "1" or True:
        kw["magnitude"] = str(mag)
    if eq is not None:
        kw["equation"] = eq
    if typ == "T":
        return T(origin=o, destination=d, **kw)
    if typ == "B":
        if birth_by_origin:
            return T(origin=d, **kw)
        return T(destination=d, **kw)
    if typ == "D":
        return T(origin=o, **kw)
    raise ValueError(typ)


def declare_states(pg, d):
    style = d.get("state_style", "list")
    names = d["states"]
    lims = d.get("limits") or [None] * len(names)
    if style == "list":
        return [n if l is None else (n, tuple(l)) for n, l in zip(names, lims)]
    if style == "tuples":
        return [(n, (0, None) if l is None else tuple(l)) for n, l in zip(names, lims)]
    if style == "string":
        return " ".join(names)
    if style == "comma":
        return ",".join(names)
    if style == "commaspace":
        return ", ".join(names)
    if style == "odevar":
        from pygom.model.ode_variable import ODEVariable
        return [ODEVariable(n, n) for n in names]
    if style == "range":
        # names must be <stem><k>..<stem><k+n-1>
        import re
        m = [re.match(r"^([A-Za-z]+)([0-9]+)$", n) for n in names]
        assert all(m) and len({x.group(1) for x in m}) == 1
        k0 = int(m[0].group(2))
        assert [int(x.group(2)) for x in m] == list(range(k0, k0 + len(names)))
        return ["%s%d:%d" % (m[0].group(1), k0, k0 + len(names))]
    raise ValueError(style)


def declare_params(pg, d):
    style = d.get("param_style", "list")
    names = d["params"]
    if style == "list":
        return list(names)
    if style == "string":
        return " ".join(names)
    if style == "comma":
        return ",".join(names)
    if style == "commaspace":
        return ", ".join(names)
    if style == "odevar":
        from pygom.model.ode_variable import ODEVariable
        return [ODEVariable(n, n) for n in names]
    raise ValueError(style)


def make_event_obj(pg, ev, route):
    """returns (kind, object) with kind in event|transition|birth_death"""
    trans = ev["trans"]
    rate = ev["rate"]
    if route == "event":
        return "event", pg.Event(transition_list=[_tr(pg, *t) for t in trans], rate=rate)
    if route == "event_single_unlisted":
        assert len(trans) == 1
        return "event", pg.Event(transition_list=_tr(pg, *trans[0]), rate=rate)
    if route.startswith("event_member"):
        # the rate is carried by member k (default 0)
        k = int(route[len("event_member"):] or 0) % len(trans)
        tl = [_tr(pg, *t, eq=(rate if i == k else None)) for i, t in enumerate(trans)]
        return "event", pg.Event(transition_list=tl)
    if route == "bare":
        assert len(trans) == 1
        return "event", _tr(pg, *trans[0], eq=rate)
    if route in ("legacy", "legacy_birth_origin"):
        assert len(trans) == 1 and str(trans[0][3]) == "1"
        typ, o, dst, mag = trans[0]
        T = pg.Transition
        if typ == "T":
            return "transition", T(origin=o, destination=dst, equation=rate, transition_type="T")
        if typ == "B":
            if route == "legacy_birth_origin":
                return "birth_death", T(origin=dst, equation=rate, transition_type="B")
            return "birth_death", T(destination=dst, equation=rate, transition_type="B")
        return "birth_death", T(origin=o, equation=rate, transition_type="D")
    raise ValueError(route)


def build(d, routes=None, lambda_backend=True, incremental=None, order=None):
    """Return (model, event_order).

    routes: per event route name (default 'event').  incremental: set of event indices
    added with add_* after construction (in definition order, after constructor events).
    order: permutation in which the events are presented.  event_order[k] = index in
    d['events'] of the model's k-th event."""
    pg = env.load_pygom()
    from pygom.model import ode_utils
    evs = d.get("events", [])
    n = len(evs)
    routes = routes or [ev.get("route", "event") for ev in evs]
    incremental = set(incremental or ())
    order = list(order) if order is not None else list(range(n))
    ctor = {"event": [], "transition": [], "birth_death": []}
    ctor_idx = {"event": [], "transition": [], "birth_death": []}
    later = []
    for i in order:
        kind, obj = make_event_obj(pg, evs[i], routes[i])
        if i in incremental:
            later.append((i, kind, obj))
        else:
            ctor[kind].append(obj)
            ctor_idx[kind].append(i)
    odes = [pg.Transition(origin=s, equation=e, transition_type="ODE") for s, e in d.get("odes", [])]
    kw = {}
    if ctor["event"]:
        kw["event"] = ctor["event"]
    if ctor["transition"]:
        kw["transition"] = ctor["transition"]
    if ctor["birth_death"]:
        kw["birth_death"] = ctor["birth_death"]
    if odes and not d.get("odes_incremental"):
        kw["ode"] = odes
    if d.get("derived"):
        kw["derived_param"] = [tuple(x) for x in d["derived"]]
    m = pg.SimulateOde(declare_states(pg, d), declare_params(pg, d), **kw)
    if lambda_backend:
        m._SC = ode_utils.compileCode(backend="lambda")
    ev_order = ctor_idx["event"] + ctor_idx["transition"] + ctor_idx["birth_death"]
    for i, kind, obj in later:
        if kind == "event":
            m.add_event(obj)
        elif kind == "transition":
            m.add_transition(obj)
        else:
            m.add_birth_death(obj)
        ev_order.append(i)
    if odes and d.get("odes_incremental"):
        for o in odes:
            m.add_ode(o)
    return m, ev_order


EVALUATORS = ["ode", "jacobian", "grad", "diff_jacobian", "grad_jacobian", "vMat", "eventRateVector", "pureOdeVector",
              "transitionJacobian", "transitionMean", "transitionVar"]
GETTERS = ["get_ode_eqn", "get_jacobian_eqn", "get_grad_eqn", "get_diff_jacobian_eqn", "get_grad_jacobian_eqn", "get_StateChangeMatrix",
           "get_EventRateVector", "get_pureOdeVector", "get_ReactantMatrix", "get_TransitionJacobian", "get_TransitionMean", "get_TransitionVar"]


def touch(m, x, t, theta):
    """evaluate everything once (symbolic getters and compiled evaluators), ignoring failures: leaves every cache warm"""
    try:
        m.parameters = list(theta)
    except Exception:
        pass
    for g in GETTERS:
        try:
            getattr(m, g)()
        except Exception:
            pass
    for e in EVALUATORS:
        try:
            getattr(m, e)(x, t)
        except Exception:
            pass


def can_grow(d):
    return len(d.get("events", [])) + len(d.get("odes", [])) >= 2


def build_grown(d, x, t, theta, lambda_backend=True, interleave_other=False):
    """the same model reached from a NON-initial state: built without its last process (last explicit ODE term if
    there is one, else the last event), everything evaluated once, then the last process added with add_ode / add_event"""
    import copy
    pg = env.load_pygom()
    d1 = copy.deepcopy(d)
    if d1.get("odes"):
        last = ("ode", d1["odes"].pop())
    else:
        last = ("event", d1["events"].pop())
    m, order = build(d1, lambda_backend=lambda_backend)
    touch(m, x, t, theta)
    if last[0] == "ode":
        m.add_ode(pg.Transition(origin=last[1][0], equation=last[1][1], transition_type="ODE"))
    else:
        kind, obj = make_event_obj(pg, last[1], last[1].get("route", "event"))
        m.add_event(obj)
        order = order + [len(d["events"]) - 1]
    if interleave_other:
        # ... and, before the changed model is asked anything, another freshly built model compiles and evaluates every one
        # of its functions (recompilation state shared between model objects would mark the changed model as up to date)
        o, _ = build(d1, lambda_backend=lambda_backend)
        touch(o, x, t, theta)
    return m, order


def can_twin(d):
    return d.get("state_style") != "range" and (len(d["states"]) > 1 or len(d["params"]) > 1)


def twin(d):
    """the same mathematics declared in the opposite order (states, limits and parameters reversed): a different,
    equally valid definition whose compiled functions take their arguments in another order"""
    import copy
    d2 = copy.deepcopy(d)
    d2["states"] = list(reversed(d["states"]))
    d2["limits"] = list(reversed(d.get("limits") or [None] * len(d["states"])))
    d2["params"] = list(reversed(d["params"]))
    return d2
