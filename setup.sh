#!/bin/sh
# Build what the checks need from files on disk only (offline): the tau-leap extension
# compiled from /repo's working tree into /verif/.build.
cd "$(dirname "$0")" || exit 2
export PYTHONDONTWRITEBYTECODE=1
exec /venv/bin/python -W ignore -c "
import sys; sys.path.insert(0, '.')
from mc import env
print('extension:', env.ext_path())
env.load_pygom(); print('pygom ok')
"
