#!/usr/bin/env python3
"""usage: tools/mutrun.py [patch-name...]   runs every /verif/mutants/*.patch against the check named by its prefix (scratch
worktree of /repo HEAD, removed afterwards) and records the outcome in /verif/mutants/results.json"""
import json, os, subprocess, sys, tempfile
V = os.path.dirname(os.path.dirname(os.path.abspath(__file__)))
R = os.path.join(V, "mutants", "results.json")
res = json.load(open(R)) if os.path.exists(R) else {}
names = sys.argv[1:] or sorted(f for f in os.listdir(os.path.join(V, "mutants")) if f.endswith(".patch"))
head = subprocess.run(["git", "-C", "/repo", "rev-parse", "--short", "HEAD"], stdout=subprocess.PIPE, text=True).stdout.strip()
for n in names:
    pid = n.split("-")[0]
    w = tempfile.mkdtemp(prefix="mw-", dir="/tmp"); os.rmdir(w)
    e = tempfile.mkdtemp(prefix="me-", dir="/tmp")
    try:
        subprocess.run(["git", "-C", "/repo", "worktree", "add", "-q", "--detach", w, "HEAD"], check=True)
        if subprocess.run(["git", "apply", "--whitespace=nowarn", os.path.join(V, "mutants", n)], cwd=w).returncode:
            res[n] = {"check": pid, "outcome": "patch-does-not-apply", "repo_head": head}
            continue
        r = subprocess.run([os.path.join(V, "check"), pid, "quick"], env=dict(os.environ, VERIF_REPO=w, VERIF_EVIDENCE_DIR=e, VERIF_REPLAY_DIR=e),
                           stdout=subprocess.PIPE, stderr=subprocess.STDOUT, text=True)
        lines = r.stdout.splitlines()
        nv = sum(1 for l in lines if l.startswith("VIOLATION"))
        res[n] = {"check": pid, "tier": "quick", "exit": r.returncode, "detected": bool(nv and r.returncode == 1),
                  "first_signature": next((l.strip()[11:] for l in lines if l.strip().startswith("signature:")), None), "repo_head": head}
        print(n, "DETECTED" if res[n]["detected"] else "missed (exit %d)" % r.returncode, flush=True)
    finally:
        subprocess.run(["git", "-C", "/repo", "worktree", "remove", "--force", w])
        subprocess.run(["rm", "-rf", e, w])
        json.dump(res, open(R, "w"), indent=1, sort_keys=True)
