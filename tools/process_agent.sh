#!/bin/sh
# usage: process_agent.sh <agent-worktree> <property> <first-seed-number>
# confirms each delivered change (demo both ways + test-suite with the patch), stores it under /verif/seeded/<P>-s<k>,
# runs the owning check against it, and finally removes the agent's worktree.
A="$1"; P="$2"; N="${3:-3}"
for k in 1 2; do
  [ -f "$A/patch$k.diff" ] || continue
  SID="$P-s$N"; N=$((N+1))
  /verif/tools/confirm_seed.sh "$A" $k "$SID" "$P"
  python3 /verif/tools/seedrun.py "$SID"
done
git -C /repo worktree remove --force "$A"
