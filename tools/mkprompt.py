#!/usr/bin/env python3
"""usage: tools/mkprompt.py <property-id> <worktree-dir>  -> prints the sub-agent prompt (property text + worktree only)"""
import json, os, sys
V = os.path.dirname(os.path.dirname(os.path.abspath(__file__)))
pid, W = sys.argv[1], sys.argv[2]
p = [json.loads(l) for l in open(os.path.join(V, "properties.jsonl")) if json.loads(l)["id"] == pid][0]
t = open(os.path.join(V, "tools", "agent_prompt.txt")).read()
print(t.replace("{W}", W).replace("{title}", p["title"]).replace("{statement}", p["statement"]).replace("{quant}", p["quantifier"]["text"]))
