#!/usr/bin/env python3
"""usage: tools/mkmutant.py <name> <file-relative-to-repo> <old> <new>
Creates /verif/mutants/<name>.patch from an exact one-occurrence replacement (line endings preserved), made in a
scratch worktree of /repo HEAD that is removed afterwards."""
import os, subprocess, sys, tempfile
V = os.path.dirname(os.path.dirname(os.path.abspath(__file__)))
name, rel, old, new = sys.argv[1:5]
w = tempfile.mkdtemp(prefix="mm-", dir="/tmp"); os.rmdir(w)
subprocess.run(["git", "-C", "/repo", "worktree", "add", "-q", "--detach", w, "HEAD"], check=True)
try:
    r = subprocess.run([sys.executable, os.path.join(V, "tools", "bpatch.py"), os.path.join(w, rel), old, new])
    if r.returncode:
        sys.exit(1)
    d = subprocess.run(["git", "diff"], cwd=w, stdout=subprocess.PIPE).stdout
    open(os.path.join(V, "mutants", name + ".patch"), "wb").write(d)
    print("wrote mutants/%s.patch (%d bytes)" % (name, len(d)))
finally:
    subprocess.run(["git", "-C", "/repo", "worktree", "remove", "--force", w])
