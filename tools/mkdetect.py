#!/usr/bin/env python3
"""Rewrites the detection tables of DESIGN.md (between the DETECTION-TABLE markers) from /verif/seeded/*/meta.json and
/verif/mutants/results.json."""
import json, os, re
V = os.path.dirname(os.path.dirname(os.path.abspath(__file__)))
rows = []
for sid in sorted(os.listdir(os.path.join(V, "seeded"))):
    mp = os.path.join(V, "seeded", sid, "meta.json")
    if not os.path.exists(mp):
        continue
    m = json.load(open(mp))
    need = " ".join(m.get("needs_to_manifest", "").split())
    mch = re.search(r"(Change|change)[^:]*:\s*(.*?)(Why|WHY|Why it|$)", need)
    what = (mch.group(2) if mch else need)[:170].strip()
    det = m.get("detected_by", {})
    own = [k for k, v in det.items() if v.get("detected")]
    missed = [k for k, v in det.items() if not v.get("detected")]
    status = m.get("status", "")
    if status.startswith("obsolete"):
        verdict = "obsolete (see meta.json)"
    elif own:
        verdict = "caught by " + ", ".join(sorted(own))
    elif det:
        verdict = "**missed** by " + ", ".join(sorted(missed))
    else:
        verdict = "not run"
    sig = ""
    for k in sorted(own):
        s = det[k].get("first_signatures") or []
        if s:
            sig = s[0].replace("signature: ", "")[:160]
            break
    rows.append("| %s | %s | %s | %s | `%s` |" % (sid, m["breaks_property"], what.replace("|", "/"), verdict, sig.replace("|", "/")))
out = ["| seed | property | change (sub-agent's words, shortened) | verdict | first signature reported |", "|---|---|---|---|---|"] + rows
mr = os.path.join(V, "mutants", "results.json")
out += ["", "Hand-written mutants (`/verif/mutants/*.patch`, run by `tools/mutrun.py`, quick tier):", "", "| mutant | check | detected | first signature |", "|---|---|---|---|"]
if os.path.exists(mr):
    for n, r in sorted(json.load(open(mr)).items()):
        out.append("| %s | %s | %s | `%s` |" % (n[:-6], r["check"], "yes" if r.get("detected") else "**no** (%s)" % r.get("outcome", "exit %s" % r.get("exit")), (r.get("first_signature") or "")[:160].replace("|", "/")))
p = os.path.join(V, "DESIGN.md")
s = open(p).read()
a, b = "<!-- DETECTION-TABLE-BEGIN -->", "<!-- DETECTION-TABLE-END -->"
i, j = s.index(a), s.index(b)
open(p, "w").write(s[:i + len(a)] + "\n" + "\n".join(out) + "\n" + s[j:])
n_all = len(rows); n_c = sum("caught" in r for r in rows)
print("seeds: %d, caught %d" % (n_all, n_c))
