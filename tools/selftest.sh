#!/bin/sh
# Demonstrates detection, not just silence: every hand-written mutant and every independently seeded change is applied
# to a scratch worktree of /repo HEAD (never to /repo), the owning check is run against it, and the outcome is recorded
# (mutants/results.json, seeded/<id>/meta.json).  Then the detection tables of DESIGN.md are regenerated.
# usage: tools/selftest.sh [quick|thorough]      (about 40 min on 16 cores for the quick tier)
cd "$(dirname "$0")/.." || exit 2
TIER="${1:-quick}"
python3 tools/mutrun.py || exit 1
python3 tools/seedrun.py --tier "$TIER" || exit 1
python3 tools/mkdetect.py
missed=$(python3 - <<'PY'
import json, glob
n = 0
for f in glob.glob("seeded/*/meta.json"):
    m = json.load(open(f))
    if str(m.get("status", "")).startswith("obsolete"):
        continue
    if not any(v.get("detected") for v in m.get("detected_by", {}).values()):
        print("MISSED", f); n += 1
r = json.load(open("mutants/results.json"))
for k, v in r.items():
    if not v.get("detected"):
        print("MISSED", k); n += 1
print(n)
PY
)
echo "$missed" | tail -20
[ "$(echo "$missed" | tail -1)" = "0" ]
