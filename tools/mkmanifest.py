#!/usr/bin/env python3
"""Writes /verif/MANIFEST.json from the table below and validates it."""
import json, os, subprocess, sys
HERE = os.path.dirname(os.path.dirname(os.path.abspath(__file__)))
ALL = ["C%02d" % i for i in range(1, 21)]

CHECKS = {
 "C04": dict(
    category="model_checking", design_ref="DESIGN.md §5 C04, §4.4",
    technique="stateless exploration of the real simulation loop under a scheduler that owns every random draw (deviation-bounded DFS over answer sequences), each execution replayed against a reference CTMC",
    text="Every execution of solve_stochast (exact, fixed-tau and adaptive tau-leap) whose answers to the library's exponential/poisson draws deviate from the default in at most D places is enumerated for every event-only definition within k edits of the seed models; each execution must start at (x0,t0), have increasing times, natural counts (one per step in exact mode), dx = V*counts, equal the reference path computed from the same answers, and return for the right reason.",
    note="Trusted: sympy evaluation of the reference rates; numpy draws reach the library only via numpy.random.exponential/poisson (checked per execution). Bounds: populations <= 5, menus of 4 answers per draw, deviation bound 1 (quick) / 2 (thorough)."),
}
NOT_YET = "check not built yet in this round (planned in DESIGN.md §5)"

def main():
    checks = []
    for pid in ALL:
        if pid not in CHECKS:
            continue
        c = CHECKS[pid]
        checks.append({
            "property_id": pid,
            "quick_cmd": "./check %s quick" % pid,
            "thorough_cmd": "./check %s thorough" % pid,
            "evidence_file": "/verif/evidence/%s.json" % pid,
            "replay_cmd_template": "./check %s --replay {path}" % pid,
            "engine": c.get("engine", "mc"),
            "level_claimed": {"category": c["category"], "text": c["text"], "design_ref": c["design_ref"]},
            "level_note": c["note"],
            "technique": c["technique"],
        })
    na = [{"property_id": p, "reason": NA.get(p, NOT_YET)} for p in ALL if p not in CHECKS]
    m = {
        "version": 1,
        "setup_cmd": "./setup.sh",
        "hooks": {"guard": "PYGOM_VERIF",
                  "enable": "no source hooks: all seams are reached by rebinding module attributes from the harness (numpy.random.*, module-level names); the checks export PYGOM_VERIF=1 but no line of /repo reads it",
                  "baseline_off_cmd": "cd /repo && /venv/bin/python -m pytest -ra -q -p no:cacheprovider --timeout=900 --continue-on-collection-errors",
                  "source_commits": [], "add_only": True},
        "engines": [{"name": "mc", "path": "/verif/mc", "serves_properties": sorted(CHECKS),
                     "kind_free_text": "hand-written bounded exhaustive explorers for Python: generator explorer over model definitions, history explorer, random-stream scheduler, configuration enumerator; reference semantics in sympy"}],
        "checks": checks,
        "not_applicable": na,
        "notes": "See DESIGN.md. Known findings and repaired defects: known_findings.json.",
    }
    path = os.path.join(HERE, "MANIFEST.json")
    with open(path, "w") as f:
        json.dump(m, f, indent=1)
    r = subprocess.run(["python3-vt", "-c", "import json,jsonschema,sys; jsonschema.validate(json.load(open(sys.argv[1])), json.load(open('/root/.vp/MANIFEST.schema.json'))); print('MANIFEST valid:', len(json.load(open(sys.argv[1]))['checks']), 'checks')", path])
    sys.exit(r.returncode)
NA = {}
main()
