#!/usr/bin/env python3
"""Writes /verif/MANIFEST.json from the table below and validates it."""
import json, os, subprocess, sys
HERE = os.path.dirname(os.path.dirname(os.path.abspath(__file__)))
ALL = ["C%02d" % i for i in range(1, 21)]

CHECKS = {
 "C04": dict(
    category="model_checking", design_ref="DESIGN.md §5 C04, §4.4",
    technique="stateless exploration of the real simulation loop under a scheduler that owns every random draw (deviation-bounded DFS over answer sequences), each execution replayed against a reference CTMC",
    text="Every execution of solve_stochast (exact, fixed-tau and adaptive tau-leap) whose answers to the library's exponential/poisson draws deviate from the default in at most D places is enumerated for every event-only definition within k edits of the seed models; each execution must start at (x0,t0), have increasing times, natural counts (one per step in exact mode), dx = V*counts, equal the reference path computed from the same answers, and return for the right reason.",
    note="Trusted: sympy evaluation of the reference rates; numpy draws reach the library only via numpy.random.exponential/poisson (checked per execution). Bounds: populations <= 5 (800-1000 in the large-population leg: mean-relative poisson answers, four default steps, deviation bound 2; 660-800 events in the all-default long exact runs), menus of 4 answers per draw; deviation bound quick: 1 within one edit of three seeds, 2 on the seeds; thorough: 1 within one edit of seven seeds (all initial states and horizons), 2 within one edit of the three quick seeds, 3 on the seeds (11 million executions, 36 min). Initial states are handed over integer-typed and float-typed alternately."),
 "C05": dict(
    category="model_checking", design_ref="DESIGN.md §5 C05",
    technique="explicit-state search of the jump chain through the real firstReaction (every reachable state x every ordering of the enabled clocks), generator matrix assembled from requested scales and observed successors, compared with closed-form laws; conformance replay of free-running seeded runs",
    text="Kernel extraction instead of statistics: at every reachable state of linear chains and SIR (N<=4 quick, <=6 thorough, 2x2/3x3 rate grid, with and without explicit limits) the code must request one exponential per enabled event with scale 1/rate and fire the argmin; the implementation-induced generator then reproduces the multinomial occupancy law (expm) and the SIR final-size law to 1e-9. Real-seed ensembles (3 runs per call, raw and on a time grid reaching far beyond absorption) are replayed through the reference from their recorded draws, each run from its own disjoint stretch of the stream; ensembles produced with parallel=True (real dask run) must consist of pairwise different realisations.",
    note="Assumes numpy.random.exponential is an iid Exp(scale) source; the statistical acceptance test of the property text is replaced by an exact comparison of laws."),
 "C10": dict(
    category="model_checking", design_ref="DESIGN.md §5 C10",
    technique="generator exploration of transition-only definitions (symbolic sum of the ODE), solver runs, and scheduler-driven exploration of simulations with the conservation invariant on every recorded state",
    text="(a) all transition-only definitions within D edits of three seeds: sum(ode)==0 symbolically and numerically and ode equals the reference; (b) integrate/solve_determ/integrate2 row sums constant; (c) every explored execution of exact and tau-leap simulation and every step from every reachable state keeps the total exactly.",
    note="sympy decides the symbolic identity; populations <= 5 (1000 in the large-population leg with mean-relative poisson answers); deviation bound 1 around the seeds and 2 on them (quick); 1 and 2 around them, 3 on them (thorough)."),
 "C11": dict(
    category="model_checking", design_ref="DESIGN.md §5 C11",
    technique="explicit-state search through the real step functions (every clock ordering / poisson answer vector from every reachable and every limit-boundary state) plus deviation-bounded exploration of whole simulations",
    text="Definitions with absent, lower, upper, two-sided, (None,None), non-positive (-3,0) and very large limits, populations of a few individuals and (large-population leg) of hundreds with mean-relative poisson answers, list/tuple/range declarations, constant-rate deaths, magnitudes up to 3, hybrid models with ODE terms: every recorded state inside its limits, every illegal proposal refused with state and time unchanged, path equal to the reference that refuses exactly the illegal proposals.",
    note="Lower limit 0 assumed when none is declared; executions that leave the domain of non-negative rates (only when the user declared no lower limit) are not judged."),
 "C15": dict(
    category="model_checking", design_ref="DESIGN.md §5 C15",
    technique="deviation-bounded exploration of solve_stochast with a time grid under the draw scheduler; expected rows and per-interval per-event counts computed from the reference path for the same answers",
    text="Grids (uniform, fine with many empty intervals, late start, long tail past extinction, near-miss grid times a hair before/after event times, two points, unequally spaced with first step = mean step) x list/tuple/ndarray x exact/fixed/adaptive tau x initial states with and without enabled events: one row per time, first row x0, exact-mode rows are the path state at t_k, counts are per-event counts of (t_k,t_k+1], rows differ by V*counts.",
    note="Event times never coincide with grid times (skipped and counted if they do); tau-leap rows are interpolated by design, only shape, first row and total counts are judged there."),
 "C16": dict(
    category="model_checking", design_ref="DESIGN.md §5 C16",
    technique="scheduler-driven enumeration of draw schedules with routing audit (global generator untouched, no private generator), replay of each schedule on the same object, exhaustive answer sequences for random parameters, real-seed block",
    text="Every explored schedule of serial solve_stochast goes only through numpy's global draw functions and a repeated call with the same answers on the same model returns identical output (two paths per call); random-parameter runs (frozen / (sampler,args) / (sampler,kwargs), 1-2 random parameters, 1-3 iterations, solve_determ and simulate_param): mean equals the mean of the returned runs exactly and each run is the solution for its drawn parameters; real seeds: same seed twice identical, different seeds pairwise different.",
    note="numpy generators are deterministic functions of the seed; 'different seeds differ' enumerated over a block of 12 (quick) / 40 (thorough) seeds."),
 "C01": dict(
    category="exploration", design_ref="DESIGN.md §5 C01, §4.2",
    technique="exhaustive enumeration of model definitions within a bounded number of named-choice edits of seed models (iterative deviation bounding over a generator grammar) plus a complete small-scope block; each definition compared with sympy reference semantics",
    text="For every enumerated definition (events of 1-3 T/B/D transitions, numeric and symbolic magnitudes, 8 rate templates incl. time-periodic, ODE terms, derived parameters, 7 declaration styles) the symbolic ode / state-change matrix / rate vector / explicit terms equal the reference, ode == V*a + explicit terms, the reactant matrix is the support pattern, and the numeric evaluators equal mpmath evaluation of the reference at 5 points on one model instance (parameters re-assigned between points, one point repeated with other parameters); Cython back-end on the seeds. Each definition with two or more processes is also reached from a non-initial state (built without its last process, everything evaluated, last process added; questions asked in rotated order) and judged next to a live, fully evaluated twin declared in the opposite order.",
    note="Reference = sympy on the definition alone. quick: all 1-edit neighbours of 6 seeds + a VERIF_SEED-selected 1/6 slice of the 2-edit neighbourhoods and 1/7 of the block (not exhaustive, flagged); thorough: the complete 2-edit neighbourhoods of all six seeds and the complete block, every third definition also grown / as a twin."),
 "C03": dict(
    category="exploration", design_ref="DESIGN.md §5 C03",
    technique="same generator exploration as C01 with sympy.diff of the reference right-hand side as oracle",
    text="jacobian, grad, diff_jacobian, grad_jacobian, transitionJacobian, transitionMean, transitionVar of every enumerated definition equal the derivatives of the reference right-hand side / rate vector, symbolically (get_*_eqn) and numerically at 4 points, with rows and columns in declared order (asymmetric models, so transposed or permuted results differ).",
    note="As C01."),
 "C08": dict(
    category="model_checking", design_ref="DESIGN.md §5 C08, §4.3",
    technique="explicit enumeration of operation histories (mutators x evaluations) replayed on fresh real objects; differential oracle against a fresh object that received only the mutators",
    text="All histories of length 3 over 13 mutators, 11 evaluators and 'evaluate another live model' from a fresh model (and [mutator, any, evaluation] from an all-compiled model), plus every two-phase history [mutator, evaluation, mutator, evaluation]; thorough adds all length-4 histories with five evaluators as operations. Every evaluation inside a history must equal the same evaluator on a fresh object with the same mutators and no interleaved evaluation.",
    note="No abstraction of the model state is used for pruning. In states where a declared parameter has no value both sides must fail alike."),
 "C09": dict(
    category="model_checking", design_ref="DESIGN.md §5 C09",
    technique="enumeration of all sequences of parameter assignments over the input-form alphabet on one live object, against a dict reference",
    text="All sequences of <=2 (quick; +length 3 over 12 representative forms) / 3 (thorough) assignments over 41 forms (list, tuple, array, column array, pairs in all orders, dict by str / model symbol / plain Symbol for all subsets, six rejected forms) on a model whose evaluators reveal each parameter separately (ode, grad and a parameter-only state-change matrix, parameters declared in non-alphabetical order); plus a grown-list leg: full assignment -> [evaluate] -> parameter list extended -> second assignment in nine forms -> evaluate.",
    note="Partial update on a model that never had values leaves unmentioned parameters unspecified (not judged)."),
 "C12": dict(
    category="model_checking", design_ref="DESIGN.md §5 C12",
    technique="enumeration of route assignments x orderings x declaration styles x incremental subsets for fixed process sets; differential oracle against the all-Event variant, plus a grown-model leg with interleaved evaluations",
    text="7 process sets; every assignment of an API route to each process, every ordering, every subset added with add_*, every state/parameter declaration style, the explicit-ODE form, and models grown one process at a time with evaluations in between: symbolic ODE identical, numeric ode/jacobian/grad/eventRateVector/vMat identical (modulo the known event permutation).",
    note="Legacy transition=/birth_death= routes only with magnitude 1 (they cannot express another)."),
 "C02": dict(
    category="exploration", design_ref="DESIGN.md §5 C02",
    technique="exhaustive enumeration of a finite configuration product (model x grid x entry point x integrator x flags), every combination executed and compared with a closed form or a reference integration of the sympy right-hand side",
    text="Catalogue and generated models x t0 in {0, 0.5} x six grid shapes (uniform, non-uniform, scalar, one element, integer array, integer list) x {integrate, solve_determ, integrate2, integrateFuncJac} x methods {None, lsoda, vode, ivode, dopri5, dop853} x full_output x includeOrigin: row count and order, first row exactly x0, each row the solution at its time. A history leg solves a model again after it was changed while another live model was solved in between. Decides alignment, ordering, aliasing, shaping and staleness, which is where the defects found on the pinned tree lived.",
    note="Trusted: scipy DOP853 at rtol 1e-12 on the sympy right-hand side, closed forms for the linear chain and the logistic model. Tolerance 1e-6(1+|x|); a case counts as non-trivial only if consecutive rows differ by 1e-3."),
 "C06": dict(
    category="exploration", design_ref="DESIGN.md §5 C06",
    technique="exhaustive enumeration of loss configurations (loss class x observed-state selection in every order x spread x weights x target parameters x entry point x grid type) against independent loss formulas on a reference trajectory",
    text="cost(theta), cost(), residual and costIV of all five loss classes equal the independently written loss of the reference trajectory at the observation times, for every ordered selection of observed states, scalar / per-state / per-observation spread and weights, every ordered target_param subset and integer-typed observation times with fractional t0; square loss at the generating parameters is 0. A sequence leg evaluates one loss object ten times (same point, points a relative 9e-6 away, elsewhere and back, through cost/residual/costIV); a target_state leg runs costIV for every ordered target_state subset on objects constructed with float / integer-typed initial states.",
    note="Reference trajectory = closed form or DOP853(1e-12); loss formulas written with math.lgamma/log only. quick runs every second configuration (selected by VERIF_SEED), thorough all."),
 "C07": dict(
    category="exploration", design_ref="DESIGN.md §5 C07",
    technique="exhaustive enumeration of gradient configurations against the derivative of the reference cost (sympy variational system + chain rule through independent loss derivatives)",
    text="sensitivity, gradient and sensitivityIV of all five loss classes equal the derivative of the reference cost for every ordered observed-state selection, every ordered target_param and target_state subset, weights (Square/Normal), spread forms, integrator methods and full_output, with components in the order the free variables were supplied. A sequence leg evaluates the gradient eight times on one object at the optimum, a hair away from it, elsewhere and back.",
    note="The oracle is the derivative of the reference cost, not finite differences of the library's cost. quick: every third configuration."),
 "C13": dict(
    category="exploration", design_ref="DESIGN.md §5 C13",
    technique="enumeration of model shapes (d,p) in {1,2,3}x{0..3} x arrangement x evaluation points; symbolic Jacobian of the reference augmented system as oracle; integration of the augmented systems against the reference variational solution",
    text="ode_and_sensitivity / ode_and_sensitivityIV and their Jacobians (by parameter and by state) equal the variational right-hand side [f, vec(J S + G)] / [.., vec(J S0)] and its exact symbolic Jacobian for every shape incl. one-state and p != d-1; integrating them gives dx/dtheta and dx/dx0 (scipy.ode methods, and scipy Radau driven with the by-state system and its Jacobian). One point is visited three times with different parameter values, and the vector handed to the right-hand side and the Jacobian must come back untouched.",
    note="Reference J, G and the augmented Jacobian come from sympy.diff on the definition; no finite differences in the oracle."),
 "C14": dict(
    category="exploration", design_ref="DESIGN.md §5 C14",
    technique="exhaustive grid enumeration of (y, yhat, spread, weights, shapes) for every loss kernel against closed-form negative log-likelihoods and their sympy derivatives",
    text="loss, diff_loss and diff2Loss of Square, Normal, Poisson, Gamma and NegBinom equal minus the summed log-density (written independently) and its first and second derivative in the prediction, for scalar and per-observation spread, one-column and vector predictions, weights on and off, float and integer-typed observation arrays, and a large regime (counts to 2000, dispersion to 5000).",
    note="Real arguments on an explicit grid only; derivatives from sympy.diff evaluated by mpmath."),
 "C17": dict(
    category="model_checking", design_ref="DESIGN.md §5 C17",
    technique="stateless exploration of the real ABC sampler under an environment that owns every prior draw, particle choice and kernel draw (deviation-bounded DFS over answer classes relative to the tolerance in force), in lock-step with a reference model of the algorithm whose trace is compared with the library's particle table after every proposal and every call",
    text="For 12 parameter sets (uniform/gamma/normal priors, log-scale flags incl. mixed masks, inferred initial states listed before parameters, population constraint, one to three inferred quantities, Square/Normal/Poisson loss) x 11 schedules (rejection, tolerance list, quantile with exact and interpolated quantiles, nearest-neighbour kernels, get/continue/continue) every execution with at most 1 (quick; 2 on selected configurations) / 2 (thorough) non-default answers is enumerated. Each proposal is answered ACCEPT / REJECT_TOL / REJECT_PRIOR / DUPLICATE (incl. the particle whose distance is exactly the quantile tolerance). After every proposal the library's particle table must agree with the reference accept/reject decision; after every call particles are exactly the accepted proposals, inside the support, stored distance = reference cost recomputed by parameter name and below the generation's tolerance, weights positive and finite, tolerance schedule as the reference computes it and non-increasing under quantiles.",
    note="Reference cost from closed-form trajectories; answers keep a 10% margin to the tolerance (except the exact-boundary duplicate); executions where the library computes a singular proposal covariance are cut and counted. Kernel answers stay within six standard deviations of the requested kernel."),
 "C18": dict(
    category="exploration", design_ref="DESIGN.md §5 C18",
    technique="exhaustive enumeration of fit configurations (model x generating parameters x loss class x observed states x target_param order x box shape x start lattice x bound container), each executed on the real fit and judged with a reference cost",
    text="Every combination calls the real fit: the returned point is inside the box exactly, its reference cost does not exceed the reference cost of the start, and from the generating parameters with noise-free data the result is those parameters. Boxes differ per parameter and include bounds that decrease along the vector, boxes excluding the truth, starts on faces; target_param in non-model order.",
    note="Reference cost = independent loss formula on DOP853 reference trajectory. One-sided/absent bounds only from the optimum (the search may otherwise leave the model's domain). quick: every sixth configuration."),
 "C19": dict(
    category="exploration", design_ref="DESIGN.md §5 C19",
    technique="exhaustive grid enumeration of every implemented d/p/q/r helper x argument grid x parameter grid x log flag x seeds, against textbook formulas in mpmath",
    text="Every implemented density, distribution, quantile and generator helper: density and CDF equal the textbook formula in R's parameterisation, p is the integral of d, q inverts p, the log form is the log of the plain form, both negative-binomial parameterisations agree, seeded generators reproduce for equal seeds and differ for different ones.",
    note="mpmath special functions, not scipy.stats (which the helpers wrap); pnbinom/qnbinom/rnbinom are unimplemented stubs and not judged."),
 "C20": dict(
    category="exploration", design_ref="DESIGN.md §5 C20",
    technique="exhaustive enumeration of curvature configurations (model x theta x ordered observed-state selection x weights x ordered target_param x method x flags) against first- and second-order variational systems derived by sympy",
    text="jtj equals the weighted Gauss-Newton sum from reference sensitivities, is symmetric and positive semi-definite; hessian equals the second derivative of the reference weighted square-loss cost. On models whose parameters enter additively any discrepancy is a violation; on models with mixed terms a hessian that equals the reference computed without the mixed terms is exactly the recorded known finding F16 and anything else is a violation.",
    note="The reference Hessian is itself checked against central differences of the reference gradient in every run."),
}
NOT_YET = "check not built yet in this round (planned in DESIGN.md §5)"

def main():
    checks = []
    for pid in ALL:
        if pid not in CHECKS:
            continue
        c = CHECKS[pid]
        checks.append({
            "property_id": pid,
            "quick_cmd": "./check %s quick" % pid,
            "thorough_cmd": "./check %s thorough" % pid,
            "evidence_file": "/verif/evidence/%s.json" % pid,
            "replay_cmd_template": "./check %s --replay {path}" % pid,
            "engine": c.get("engine", "mc"),
            "level_claimed": {"category": c["category"], "text": c["text"], "design_ref": c["design_ref"]},
            "level_note": c["note"],
            "technique": c["technique"],
        })
    na = [{"property_id": p, "reason": NA.get(p, NOT_YET)} for p in ALL if p not in CHECKS]
    m = {
        "version": 1,
        "setup_cmd": "./setup.sh",
        "hooks": {"guard": "PYGOM_VERIF",
                  "enable": "no source hooks: all seams are reached by rebinding module attributes from the harness (numpy.random.*, module-level names); the checks export PYGOM_VERIF=1 but no line of /repo reads it",
                  "baseline_off_cmd": "cd /repo && /venv/bin/python -m pytest -ra -q -p no:cacheprovider --timeout=900 --continue-on-collection-errors",
                  "source_commits": [], "add_only": True},
        "engines": [{"name": "mc", "path": "/verif/mc", "serves_properties": sorted(CHECKS),
                     "kind_free_text": "hand-written bounded exhaustive explorers for Python: generator explorer over model definitions, history explorer, random-stream scheduler, configuration enumerator; reference semantics in sympy"}],
        "checks": checks,
        "not_applicable": na,
        "notes": "See DESIGN.md. Known findings and repaired defects: known_findings.json.",
    }
    path = os.path.join(HERE, "MANIFEST.json")
    with open(path, "w") as f:
        json.dump(m, f, indent=1)
    r = subprocess.run(["python3-vt", "-c", "import json,jsonschema,sys; jsonschema.validate(json.load(open(sys.argv[1])), json.load(open('/root/.vp/MANIFEST.schema.json'))); print('MANIFEST valid:', len(json.load(open(sys.argv[1]))['checks']), 'checks')", path])
    sys.exit(r.returncode)
NA = {}
main()
