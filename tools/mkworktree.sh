#!/bin/sh
# usage: mkworktree.sh <dir>   creates a scratch worktree of /repo HEAD with the prebuilt extension copied in
D="$1"
git -C /repo worktree add -q --detach "$D" HEAD || exit 2
cp /repo/src/pygom/model/_tau_leap.cpython-312-x86_64-linux-gnu.so "$D/src/pygom/model/" 
echo "$D"
