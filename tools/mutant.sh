#!/bin/sh
# usage: tools/mutant.sh <patch-file | revert:<commit>> <ID> [tier]
# Applies a change to a scratch worktree of /repo (never to /repo itself), runs one check
# against it, reports whether a VIOLATION was raised, removes the worktree.
P="$1"; ID="$2"; TIER="${3:-quick}"
W=$(mktemp -d /tmp/mw-XXXXXX)
git -C /repo worktree add -q --detach "$W" HEAD || exit 2
if [ "${P#revert:}" != "$P" ]; then
  (cd "$W" && git revert --no-commit "${P#revert:}" >/dev/null 2>&1) || { echo "revert failed"; git -C /repo worktree remove --force "$W"; exit 2; }
else
  (cd "$W" && git apply --whitespace=nowarn "$P") || { echo "apply failed"; git -C /repo worktree remove --force "$W"; exit 2; }
fi
E=$(mktemp -d /tmp/me-XXXXXX)
VERIF_REPO="$W" VERIF_EVIDENCE_DIR="$E" VERIF_REPLAY_DIR="$E" /verif/check "$ID" "$TIER" > "$E/out.txt" 2>&1
rc=$?
nv=$(grep -c '^VIOLATION' "$E/out.txt")
echo "mutant=$(basename "$P") check=$ID tier=$TIER exit=$rc violations_lines=$nv"
grep -m3 -A1 '^VIOLATION' "$E/out.txt" | grep signature | head -3
[ "$rc" != 0 ] && [ "$nv" = 0 ] && tail -5 "$E/out.txt"
git -C /repo worktree remove --force "$W"; rm -rf "$E"
[ "$nv" -gt 0 ]
