#!/bin/sh
# usage: confirm_seed.sh <agent-dir> <k> <seed-id> <property>
# Independently confirms a seeded change: demo passes on a clean worktree, fails with the
# patch, and the repository's test-suite still passes with the patch.  Stores the change
# under /verif/seeded/<seed-id>/.
A="$1"; K="$2"; SID="$3"; PROP="$4"
OUT=/verif/seeded/$SID
mkdir -p "$OUT"
cp "$A/patch$K.diff" "$OUT/patch.diff"; cp "$A/demo$K.py" "$OUT/demo.py"; cp "$A/notes$K.txt" "$OUT/notes.txt" 2>/dev/null
# the agent's own scratch worktree is reused (demos may assert its path); it is clean
W="$A"
cd "$W" && git checkout -q -- src || exit 2
PYTHONPATH=$W/src timeout 600 /venv/bin/python -W ignore "$OUT/demo.py" > "$OUT/demo_clean.log" 2>&1; rc_clean=$?
git apply --whitespace=nowarn "$OUT/patch.diff"; rc_apply=$?
PYTHONPATH=$W/src timeout 600 /venv/bin/python -W ignore "$OUT/demo.py" > "$OUT/demo_patched.log" 2>&1; rc_patched=$?
PYTHONPATH=$W/src /venv/bin/python -m pytest -q -p no:cacheprovider -n 6 --timeout=900 tests > "$OUT/pytest.log" 2>&1
summary=$(tail -1 "$OUT/pytest.log")
files=$(git diff --name-only | tr '\n' ' ')
git checkout -q -- src; cd /
python3 - "$OUT" "$PROP" "$rc_clean" "$rc_apply" "$rc_patched" "$summary" "$files" <<'PY'
import json,sys,os
out,prop,rc_clean,rc_apply,rc_patched,summary,files=sys.argv[1:8]
notes=open(os.path.join(out,'notes.txt')).read() if os.path.exists(os.path.join(out,'notes.txt')) else ''
meta={"breaks_property":prop,"source":"independent sub-agent given only the property text and a scratch worktree",
 "files_changed":files.split(),"needs_to_manifest":notes.strip(),
 "confirmed":{"demo_exit_clean":int(rc_clean),"patch_applies":int(rc_apply)==0,"demo_exit_patched":int(rc_patched),
              "pytest_with_patch":summary,"cmd":"worktree of /repo HEAD; PYTHONPATH=<wt>/src /venv/bin/python demo.py (clean, then patched); pytest -q -n 6 tests with the patch"},
 "detected_by":{}}
json.dump(meta,open(os.path.join(out,'meta.json'),'w'),indent=1)
print(out, "clean=%s patched=%s pytest=%s"%(rc_clean,rc_patched,summary))
PY
rm -f "$OUT/notes.txt"
