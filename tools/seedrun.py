#!/usr/bin/env python3
"""usage: tools/seedrun.py [--tier quick|thorough] [--check CXX] <seed-id>...   (default: every /verif/seeded/*)
Applies each seeded change to a scratch worktree of /repo HEAD (never to /repo), runs the owning property's
check against it and records the outcome under "detected_by" in the seed's meta.json.  Worktrees are removed."""
import json
import os
import subprocess
import sys
import tempfile

V = os.path.dirname(os.path.dirname(os.path.abspath(__file__)))


def run_one(sid, tier, check=None):
    d = os.path.join(V, "seeded", sid)
    meta = json.load(open(os.path.join(d, "meta.json")))
    pid = check or meta["breaks_property"]
    if not os.path.exists(os.path.join(V, "checks", pid.lower() + ".py")):
        return sid, pid, "no-check"
    w = tempfile.mkdtemp(prefix="sw-", dir="/tmp")
    os.rmdir(w)
    e = tempfile.mkdtemp(prefix="se-", dir="/tmp")
    try:
        subprocess.run(["git", "-C", "/repo", "worktree", "add", "-q", "--detach", w, "HEAD"], check=True)
        r = subprocess.run(["git", "apply", "--whitespace=nowarn", os.path.join(d, "patch.diff")], cwd=w)
        if r.returncode:
            return sid, pid, "patch-does-not-apply"
        env = dict(os.environ, VERIF_REPO=w, VERIF_EVIDENCE_DIR=e, VERIF_REPLAY_DIR=e)
        r = subprocess.run([os.path.join(V, "check"), pid, tier], env=env, stdout=subprocess.PIPE, stderr=subprocess.STDOUT, text=True)
        lines = r.stdout.splitlines()
        nv = sum(1 for l in lines if l.startswith("VIOLATION"))
        sigs = [l.strip() for l in lines if l.strip().startswith("signature:")][:2]
        res = {"check": pid, "tier": tier, "exit": r.returncode, "violation_lines": nv, "detected": bool(nv and r.returncode == 1),
               "first_signatures": sigs, "repo_head": subprocess.run(["git", "-C", "/repo", "rev-parse", "--short", "HEAD"], stdout=subprocess.PIPE, text=True).stdout.strip()}
        if r.returncode not in (0, 1):
            res["tail"] = lines[-6:]
        meta.setdefault("detected_by", {})
        meta["detected_by"]["%s:%s" % (pid, tier)] = res
        json.dump(meta, open(os.path.join(d, "meta.json"), "w"), indent=1)
        return sid, pid, "DETECTED" if res["detected"] else "missed (exit %d)" % r.returncode
    finally:
        subprocess.run(["git", "-C", "/repo", "worktree", "remove", "--force", w])
        subprocess.run(["rm", "-rf", e, w])


def main():
    a = sys.argv[1:]
    tier, check = "quick", None
    while a and a[0].startswith("--"):
        if a[0] == "--tier":
            tier = a[1]
        elif a[0] == "--check":
            check = a[1]
        a = a[2:]
    sids = a or sorted(os.listdir(os.path.join(V, "seeded")))
    for s in sids:
        print(*run_one(s, tier, check), flush=True)


main()
