#!/usr/bin/env python3
"""Byte-level exact replace that preserves the target's line endings.
usage: bpatch.py FILE  (reads OLD and NEW from files given by --old/--new or args)
In OLD/NEW, '\n' is translated to the file's line ending (CRLF if the file uses it)."""
import sys
def main():
    path, old, new = sys.argv[1], sys.argv[2], sys.argv[3]
    data = open(path, 'rb').read()
    crlf = b'\r\n' in data
    o = old.encode(); n = new.encode()
    if crlf:
        o = o.replace(b'\n', b'\r\n'); n = n.replace(b'\n', b'\r\n')
    c = data.count(o)
    if c != 1:
        sys.exit(f"expected exactly 1 occurrence, found {c}")
    open(path, 'wb').write(data.replace(o, n))
main()
