#!/bin/sh
# validate every evidence file against the schema
for f in /verif/evidence/*.json; do python3-vt -c "import json,jsonschema,sys; jsonschema.validate(json.load(open(sys.argv[1])), json.load(open('/root/.vp/EVIDENCE.schema.json'))); print('ok', sys.argv[1])" "$f" || exit 1; done
