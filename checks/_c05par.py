"""C05 helper, run as its own process: ensembles produced by solve_stochast(parallel=True).
dask starts worker processes with the 'spawn' method and re-imports this module in each of them, so the binding
to the working tree's pygom is made at import time.  Prints one JSON object."""
import json
import sys

from mc import env

env.load_pygom()


def main():
    import numpy as np
    from mc import stoch
    from checks import c05
    out = {"ensembles": 0, "runs": 0, "violations": []}
    jobs = json.loads(sys.argv[1])
    for (kind, N, theta, T, exact, iteration) in jobs:
        d = c05.chain_def(3) if kind == "chain3" else c05.sir_def()
        x0 = [N, 0, 0] if kind == "chain3" else [N - 1, 1, 0]
        cfg = stoch.Config(d, theta, x0, T, ("exact",) if exact else ("tau_adaptive", 0.3), name=kind)
        m, order = stoch.make_model(cfg)
        try:
            X, J, TT = m.solve_stochast(T, iteration, exact=exact, parallel=True, full_output=True)
        except Exception as e:
            out["violations"].append({"what": "parallel:raised", "job": [kind, N, theta, T, exact, iteration], "detail": "%s: %s" % (type(e).__name__, str(e)[:200])})
            continue
        out["ensembles"] += 1
        out["runs"] += len(TT)
        if len(TT) != iteration:
            out["violations"].append({"what": "parallel:number-of-runs", "job": [kind, N, theta, T, exact, iteration], "detail": len(TT)})
            continue
        keys = [tuple(np.asarray(t, float).tolist()) for t in TT]
        multi = [k for k in keys if len(k) > 1]       # runs in which at least one event fired (continuous event times)
        if len(set(multi)) != len(multi):
            out["violations"].append({"what": "parallel:runs-of-one-ensemble-are-the-same-realisation", "job": [kind, N, theta, T, exact, iteration],
                                      "detail": {"runs": len(keys), "distinct": len(set(keys))}})
        for x in X:
            if not np.array_equal(np.asarray(x)[0], np.asarray(x0)):
                out["violations"].append({"what": "parallel:first-row-not-x0", "job": [kind, N, theta, T, exact, iteration], "detail": np.asarray(x)[0].tolist()})
                break
    print("RESULT " + json.dumps(out))


if __name__ == "__main__":
    main()
