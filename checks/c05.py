"""C05 — exact stochastic simulation samples the continuous-time Markov chain's law.

Decided by kernel extraction, not statistics: for every reachable state the real
firstReaction is called under the scheduler for every ordering of the enabled clocks.
(i) it requests exactly one exponential per enabled event with scale 1/rate;
(ii) it fires the event with the smallest clock and advances time by that clock.
(i)+(ii) are the first-reaction construction, whose law is Exp(sum r) / P(e)=r_e/sum r
for iid exponentials.  The generator matrix assembled from the *requested* scales and
the *observed* successors is then compared with the closed-form laws named in the
property (multinomial occupancy of linear chains, SIR final size)."""
import itertools
import math
import sys

import numpy as np
from scipy.linalg import expm

from mc import env, gen, pool, report, sched, stoch


def chain_def(nstates, limits=None):
    names = ["A", "B", "C"][:nstates]
    evs = [{"rate": "beta*A", "trans": [("T", "A", "B", "1")]}]
    if nstates == 3:
        evs.append({"rate": "gamma*B", "trans": [("T", "B", "C", "1")]})
    return {"states": names, "state_style": "list", "limits": limits or [None] * nstates,
            "params": ["beta", "gamma"], "param_style": "list", "derived": [], "events": evs, "odes": []}


def sir_def(limits=None):
    return {"states": ["S", "I", "R"], "state_style": "list", "limits": limits or [None] * 3,
            "params": ["beta", "gamma"], "param_style": "list", "derived": [],
            "events": [{"rate": "beta*S*I", "trans": [("T", "S", "I", "1")]},
                       {"rate": "gamma*I", "trans": [("T", "I", "R", "1")]}], "odes": []}


def chain_law(x0, b, g, t, nstates):
    """occupancy law of independent individuals progressing A->B(->C); dict state -> prob"""
    if nstates == 2:
        pa = math.exp(-b * t)
        PA = [pa, 1 - pa]
        PB = [0.0, 1.0]
        P = [PA, PB]
    else:
        pa = math.exp(-b * t)
        if abs(b - g) > 1e-12:
            pb = b / (g - b) * (math.exp(-b * t) - math.exp(-g * t))
        else:
            pb = b * t * math.exp(-b * t)
        PA = [pa, pb, 1 - pa - pb]
        eb = math.exp(-g * t)
        PB = [0.0, eb, 1 - eb]
        PC = [0.0, 0.0, 1.0]
        P = [PA, PB, PC]
    dist = {tuple([0] * nstates): 1.0}
    for comp, n in enumerate(x0):
        for _ in range(n):
            nd = {}
            for st, pr in dist.items():
                for j, pj in enumerate(P[comp]):
                    if pj == 0.0:
                        continue
                    s2 = list(st)
                    s2[j] += 1
                    nd[tuple(s2)] = nd.get(tuple(s2), 0.0) + pr * pj
            dist = nd
    return dist


def sir_final_size(x0, b, g):
    """final-size law of the general stochastic epidemic from (beta, gamma, x0):
    P(infection next | s, i) = b*s/(b*s+g); dict final state -> prob"""
    s0, i0, r0 = x0
    prob = {(s0, i0): 1.0}
    final = {}
    # process states in order of decreasing s then any i
    for s in range(s0, -1, -1):
        for i in range(s0 + i0 - s + 0, -1, -1):
            pr = prob.pop((s, i), 0.0)
            if pr == 0.0:
                continue
            if i == 0:
                final[(s, 0, s0 + i0 + r0 - s)] = final.get((s, 0, s0 + i0 + r0 - s), 0.0) + pr
                continue
            pinf = b * s / (b * s + g) if s > 0 else 0.0
            if pinf:
                prob[(s - 1, i + 1)] = prob.get((s - 1, i + 1), 0.0) + pr * pinf
            prob[(s, i - 1)] = prob.get((s, i - 1), 0.0) + pr * (1 - pinf)
    # (s, i-1) with the same s is processed later in the inner loop only if i-1 < i: yes (descending i)
    return final


def kernel_job(args):
    name, kind, d, theta, x0, times = args
    out = {"name": name, "violations": [], "states": 0, "transitions": 0, "compared": 0, "max_err": 0.0, "sample": None}
    r = stoch.l1_explore((name, d, theta, x0, 50, [], (0, 1)))
    out["states"], out["transitions"] = r["states"], r["transitions"]
    if r["skipped"]:
        out["violations"].append({"what": "skipped", "why": r["skipped"]})
        return out
    for v in r["violations"]:
        out["violations"].append(v)
    if r["n_viol"]:
        return out
    # implementation-induced generator
    states = sorted(r["kernel"].keys())
    idx = {s: k for k, s in enumerate(states)}
    n = len(states)
    Q = np.zeros((n, n))
    for s, kern in r["kernel"].items():
        for e, scale in kern["scales"].items():
            nxt = kern["succ"].get(e)
            if nxt is None:
                out["violations"].append({"what": "enabled-event-never-fired-or-refused", "state": list(s), "event": e})
                continue
            q = 1.0 / scale
            Q[idx[tuple(int(v) for v in nxt)], idx[s]] += q
            Q[idx[s], idx[s]] -= q
    b, g = theta
    e0 = np.zeros(n)
    e0[idx[tuple(x0)]] = 1.0
    if kind.startswith("chain"):
        ns = len(d["states"])
        for t in times:
            p = expm(Q * t).dot(e0)
            law = chain_law(x0, b, g, t, ns)
            for s in states:
                want = law.get(s, 0.0)
                err = abs(p[idx[s]] - want)
                out["compared"] += 1
                out["max_err"] = max(out["max_err"], err)
                if err > 1e-9:
                    out["violations"].append({"what": "occupancy-law", "t": t, "state": list(s), "got": float(p[idx[s]]), "want": want})
                    break
            extra = set(law) - set(states)
            if any(law[s] > 1e-12 for s in extra):
                out["violations"].append({"what": "state-with-positive-probability-unreachable", "states": [list(s) for s in extra][:3]})
        out["sample"] = {"model": name, "theta": theta, "x0": x0, "t": times[0],
                         "P(all in last compartment)": float(expm(Q * times[0]).dot(e0)[idx[max(states, key=lambda s: s[-1])]])}
    else:
        # absorbing distribution of the embedded jump chain
        absorbing = [s for s in states if Q[idx[s], idx[s]] == 0]
        P = np.zeros((n, n))
        for s in states:
            k = idx[s]
            if Q[k, k] == 0:
                P[k, k] = 1.0
            else:
                P[:, k] = Q[:, k] / (-Q[k, k])
                P[k, k] = 0.0
        v = e0.copy()
        for _ in range(4 * n + 10):
            v = P.dot(v)
        law = sir_final_size(x0, b, g)
        for s in absorbing:
            want = law.get(s, 0.0)
            err = abs(v[idx[s]] - want)
            out["compared"] += 1
            out["max_err"] = max(out["max_err"], err)
            if err > 1e-9:
                out["violations"].append({"what": "final-size-law", "state": list(s), "got": float(v[idx[s]]), "want": want})
        if abs(sum(v[idx[s]] for s in absorbing) - 1.0) > 1e-9:
            out["violations"].append({"what": "embedded-chain-not-absorbed"})
        out["sample"] = {"model": name, "theta": theta, "x0": x0, "final_size_law": {str(s): round(float(v[idx[s]]), 6) for s in absorbing}}
    return out


ENSEMBLE = 3        # runs per free-running call


def parallel_leg(quick):
    """ensembles from solve_stochast(parallel=True), in a process of their own (dask spawns workers)"""
    import json
    import os
    import subprocess
    jobs = [["chain3", 6, [1.0, 1.5], 1.0, True, 12], ["sir", 5, [0.5, 0.3], 3.0, True, 8]]
    if not quick:
        jobs += [["chain3", 4, [0.4, 2.0], 2.5, True, 130], ["sir", 4, [1.3, 0.9], 2.0, True, 24], ["chain3", 6, [1.0, 1.5], 1.0, False, 8]]
    r = subprocess.run([sys.executable, "-W", "ignore", "-m", "checks._c05par", json.dumps(jobs)], cwd=env.VERIF,
                       stdout=subprocess.PIPE, stderr=subprocess.STDOUT, text=True, env=dict(os.environ))
    for line in r.stdout.splitlines():
        if line.startswith("RESULT "):
            return json.loads(line[7:])
    raise report.HarnessError("parallel ensemble helper produced no result:\n" + r.stdout[-1500:])


class Recorder(sched.Sched):
    """passes every draw to the true generator and records it (conformance replay)"""

    def __init__(self, real_exp, real_pois):
        super().__init__([], horizon=10 ** 7)
        self.re, self.rp = real_exp, real_pois

    def exponential(self, scale=1.0, size=None):
        v = self.re(scale=scale, size=size)
        for x in np.atleast_1d(v):
            self.log.append(("exp", float(scale), float(x)))
        return v

    def poisson(self, lam=1.0, size=None):
        v = self.rp(lam, size=size)
        for x in np.atleast_1d(v):
            self.log.append(("pois", float(lam), int(x)))
        return v


def conformance_job(args):
    """free-running seeded simulations: the recorded true draws fed to the reference model
    must reproduce the path exactly"""
    name, d, theta, x0, T, mode, seeds = args
    out = {"name": name, "runs": 0, "violations": [], "steps": 0}
    cfg = stoch.Config(d, theta, x0, T, mode, name=name)
    m, order = stoch.make_model(cfg)
    rs = stoch.RefSim(d, theta, order)
    import io, contextlib
    for sd in seeds:
        np.random.seed(sd)
        rec = Recorder(np.random.exponential, np.random.poisson)
        saved = (np.random.exponential, np.random.poisson)
        try:
            np.random.exponential, np.random.poisson = rec.exponential, rec.poisson
            with contextlib.redirect_stdout(io.StringIO()):
                X, J, TT = m.solve_stochast(T, ENSEMBLE, exact=(mode[0] == "exact"), full_output=True)
        except Exception as e:
            out["runs"] += 1
            out["violations"].append({"what": "free-run:raised", "seed": sd, "detail": "%s: %s" % (type(e).__name__, e)})
            continue
        finally:
            np.random.exponential, np.random.poisson = saved
        # the runs of one serial ensemble consume consecutive, disjoint stretches of the draw stream
        pos = 0
        if len(TT) != ENSEMBLE:
            out["violations"].append({"what": "free-run:number-of-runs", "seed": sd, "detail": len(TT)})
            continue
        for k in range(ENSEMBLE):
            out["runs"] += 1
            out["steps"] += len(TT[k]) - 1
            used = []
            try:
                mm = stoch.check_raw_path(rs, x0, 0.0, T, mode[0] == "exact", (X[k], J[k], TT[k]), rec.log[pos:], pre_tau=cfg.pre_tau(),
                                          partial=(k < ENSEMBLE - 1), used=used)
            except stoch.Skip:
                mm = None
                break
            if mm is not None:
                out["violations"].append({"what": "free-run:" + mm.what, "seed": sd, "run_in_ensemble": k, "detail": mm.detail})
                break
            pos += used[0]
        # the same, read on a time grid (the occupancy at time t and the final size are read this way): rows must be the
        # state of the reference path at each grid time, also long after absorption
        if mode[0] != "exact":
            continue
        np.random.seed(sd)
        rec = Recorder(np.random.exponential, np.random.poisson)
        grid = [0.0, 0.45, 1.3, T, 12.5 * T, 140.0 * T]
        try:
            np.random.exponential, np.random.poisson = rec.exponential, rec.poisson
            with contextlib.redirect_stdout(io.StringIO()):
                Xg, Jg, tg = m.solve_stochast(np.array(grid), ENSEMBLE, exact=True, full_output=True)
        except Exception as e:
            out["violations"].append({"what": "free-run-grid:raised", "seed": sd, "detail": "%s: %s" % (type(e).__name__, e)})
            continue
        finally:
            np.random.exponential, np.random.poisson = saved
        pos = 0
        for k in range(ENSEMBLE):
            out["runs"] += 1
            try:
                rp = stoch.ref_path(rs, x0, 0.0, grid[-1], True, rec.log[pos:], partial=(k < ENSEMBLE - 1))
            except stoch.Skip:
                break
            except stoch.Mismatch as mm:
                out["violations"].append({"what": "free-run-grid:" + mm.what, "seed": sd, "run_in_ensemble": k, "detail": mm.detail})
                break
            pos += rp["used"]
            rows, counts = stoch.grid_expectation(rp, grid, rs.apply, rs.ne)
            got = np.asarray(Xg[k], float)
            if got.shape != np.asarray(rows, float).shape or not np.array_equal(got, np.asarray(rows, float)):
                out["violations"].append({"what": "free-run-grid:row-not-path-state", "seed": sd, "run_in_ensemble": k,
                                          "detail": {"grid": grid, "got": got.tolist(), "want": rows, "path_T": rp["T"][:10]}})
                break
            out["steps"] += len(rp["T"]) - 1
    return out


def main(argv=None):
    run = report.Run("C05", "model_checking")
    env.load_pygom()
    quick = run.tier == "quick"
    betas = [0.5, 1.3] if quick else [0.5, 1.3, 2.2]
    gammas = [0.3, 0.9] if quick else [0.3, 0.9, 1.7]
    Ns = [3, 4] if quick else [3, 4, 5, 6]
    times = [0.4, 1.1, 2.7]
    jobs = []
    for b, g in itertools.product(betas, gammas):
        for N in Ns:
            for lim in (None, "cap"):
                l3 = [(0, N)] * 3 if lim else None
                l2 = [(0, N)] * 2 if lim else None
                jobs.append(("chain3 N=%d b=%s g=%s lim=%s" % (N, b, g, lim), "chain3", chain_def(3, l3), [b, g], [N, 0, 0], times))
                jobs.append(("chain3' N=%d b=%s g=%s lim=%s" % (N, b, g, lim), "chain3", chain_def(3, l3), [b, g], [N - 1, 1, 0], times))
                jobs.append(("chain2 N=%d b=%s lim=%s" % (N, b, lim), "chain2", chain_def(2, l2), [b, g], [N, 0], times))
                jobs.append(("SIR N=%d b=%s g=%s lim=%s" % (N, b, g, lim), "sir", sir_def(l3), [b, g], [N - 1, 1, 0], times))
    res = pool.pmap(kernel_job, jobs, chunksize=1)
    states = sum(r["states"] for r in res)
    trans = sum(r["transitions"] for r in res)
    compared = sum(r["compared"] for r in res)
    for r, j in zip(res, jobs):
        for v in r["violations"]:
            run.violation({"leg": "kernel", "what": v["what"], "model": j[1]}, {"job": j[0], "def": j[2], "theta": j[3], "x0": j[4], "violation": v})
        if r["sample"] and j[1] in ("sir", "chain3"):
            run.sample(r["sample"], cap=2)
    # conformance replay with real seeds
    seeds = [run.seed * 1000 + k for k in range(6 if quick else 25)]
    cj = []
    for N in (4, 30):
        for mode in (("exact",), ("tau_fixed", 0.3), ("tau_adaptive", 0.3)):
            cj.append(("SIR N=%d %s" % (N, mode), sir_def(), [0.5 / N * 4, 0.3], [N - 1, 1, 0], 3.0, mode, seeds))
            cj.append(("chain N=%d %s" % (N, mode), chain_def(3), [0.9, 0.4], [N, 0, 0], 3.0, mode, seeds))
    # long free runs: 800 events per run (anything the run loop keeps in fixed-size blocks is crossed)
    cj.append(("chain N=400 long ('exact',)", chain_def(3), [0.9, 0.4], [400, 0, 0], 60.0, ("exact",), seeds[:2]))
    cj.append(("SIR N=300 long ('exact',)", sir_def(), [0.5 / 300 * 4, 0.3], [295, 5, 0], 200.0, ("exact",), seeds[:2]))
    cres = pool.pmap(conformance_job, cj, chunksize=1)
    for r, j in zip(cres, cj):
        for v in r["violations"]:
            run.violation({"leg": "conformance", "what": v["what"]}, {"job": j[0], "violation": v})
    cruns = sum(r["runs"] for r in cres)
    par = parallel_leg(quick)
    for v in par["violations"]:
        run.violation({"leg": "parallel-ensemble", "what": v["what"]}, {"job": v["job"], "detail": v["detail"]})
    run.count("parallel ensembles (dask)", par["ensembles"])
    run.count("parallel runs compared pairwise", par["runs"])
    run.count("conformance runs (real seeds)", cruns)
    run.count("conformance steps", sum(r["steps"] for r in cres))
    run.count("law entries compared", compared)
    run.cov.update({
        "evaluations": trans + cruns, "distinct_nontrivial": states,
        "rule": "for linear chains A->B(->C) and SIR with N in %s, (beta,gamma) in %s x %s, with and without explicit "
                "limits (0,N): breadth-first over all reachable states; at each the real firstReaction is called for every "
                "ordering of the enabled clocks; the generator assembled from requested scales and observed successors is "
                "compared (1e-9) with the multinomial occupancy law at t in %s and the SIR final-size law; free-running runs "
                "with real seeds (ensembles of 3 runs per call: consecutive disjoint stretches of the draw stream) are replayed through the reference "
                "from their recorded draws; ensembles produced with parallel=True must consist of pairwise different realisations" % (Ns, betas, gammas, times),
        "states": states, "transitions": trans, "traces_validated_against_impl": cruns,
        "max_abs_error_vs_closed_form": max(r["max_err"] for r in res),
    })
    run.assumptions += ["numpy.random.exponential returns iid Exp(scale) variates (the law of the first-reaction construction follows)",
                        "the acceptance-region formulation of the property is replaced by an exact comparison of the implementation-induced generator with the closed-form law; no sampling is involved"]
    rc = run.finish(exhaustive=True)
    pool.close()
    return rc


if __name__ == "__main__":
    sys.exit(main())
