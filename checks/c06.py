"""C06 — cost is the stated loss of the model trajectory against the data."""
import itertools
import sys

import numpy as np

from mc import build, detmodels, env, lossref, pool, report


def ordered_subsets(states, maxlen=2):
    out = []
    for r in range(1, min(maxlen, len(states)) + 1):
        out += [list(p) for p in itertools.permutations(states, r)]
    if len(states) > maxlen:
        out.append(list(states))
        out.append(list(reversed(states)))
    return out


def observations(name, d, theta_gen, x0, t0, times, cols, kind):
    sol = detmodels.reference_solution(name, theta_gen, x0, t0, times, d=d)
    idx = [d["states"].index(c) for c in cols]
    y = sol[:, idx].copy()
    if kind in ("Poisson", "NegBinom"):
        y = np.round(3 + 4 * np.abs(y))                  # positive integers
    elif kind in ("Gamma",):
        y = np.abs(y) * (1 + 0.07 * np.sin(1 + np.arange(y.size).reshape(y.shape))) + 0.05
    elif kind == "Normal":
        y = y * (1 + 0.05 * np.cos(np.arange(y.size).reshape(y.shape)))
    return y


def job(args):
    name, cfgs, seed = args
    out = {"name": name, "viol": [], "runs": 0, "nontrivial": 0}
    c = detmodels.CATALOGUE[name]
    d = c["d"]
    states, params = d["states"], d["params"]
    for cfg in cfgs:
        (kind, cols, thk, tgrid, t0, wkind, skind, tp, entry) = cfg
        theta_gen, x0 = c["theta"][0], c["x0"][0]
        theta = [theta_gen, c["theta"][1], [v * 1.13 for v in theta_gen]][thk]
        times = {"uniform": np.linspace(t0 + 0.5, t0 + 4.0, 8), "nonuniform": np.array([t0 + 0.2, t0 + 0.25, t0 + 1.5, t0 + 3.0]),
                 "int": np.arange(1, 6)}[tgrid]
        y = observations(name, d, theta_gen, x0, t0, times, cols, kind)
        n, p = y.shape
        positive_needed = kind in ("Poisson", "Gamma", "NegBinom")
        w = {"none": None, "per-state": [0.5 + 0.75 * j for j in range(p)], "per-obs": 0.4 + 0.1 * (np.arange(n * p).reshape(n, p) % 7)}[wkind]
        spread = None
        if kind in lossref.SPREAD_KW:
            spread = {"default": None, "scalar": 3.7, "per-state": [0.8 + 1.1 * j for j in range(p)],
                      "per-obs": 0.6 + 0.3 * (np.arange(n * p).reshape(n, p) % 5)}[skind]
        yin = y[:, 0].copy() if p == 1 else y.copy()
        win = w
        if p == 1 and w is not None:
            win = w[0] if wkind == "per-state" else np.asarray(w).ravel()
        sin = spread
        if p == 1 and spread is not None and not np.isscalar(spread):
            sin = spread[0] if skind == "per-state" else np.asarray(spread).ravel()
        case = {"cfg": list(cfg), "model": name, "loss": kind, "state_name": cols, "theta": theta, "grid": tgrid, "t0": t0, "weights": wkind, "spread": skind,
                "target_param": tp, "entry": entry}
        sig = {"loss": kind, "entry": entry, "nstates": p, "order": "model" if cols == [s for s in states if s in cols] else "permuted",
               "weights": wkind, "spread": skind, "target_param": None if tp is None else ("model-order" if tp == [q for q in params if q in tp] else "permuted"),
               "grid": tgrid if tgrid == "int" else "float"}
        try:
            m, _ = build.build(d)
            m.parameters = list(theta_gen)          # the values of the parameters that are not targets
            th_in = list(theta) if tp is None else [theta[params.index(q)] for q in tp]
            full_theta = list(theta) if tp is None else [theta[params.index(q)] if q in tp else theta_gen[params.index(q)] for q in params]
            obj = lossref.make_loss(kind, th_in, m, list(x0), t0, times, yin, cols if p > 1 else (cols[0] if seed % 2 else cols),
                                    state_weight=win, spread=sin, target_param=tp)
            if entry == "cost":
                got = obj.cost(th_in)
                x0_used = x0
            elif entry == "cost-default-theta":
                got = obj.cost()
                x0_used = x0
            elif entry == "residual":
                got = obj.residual(th_in)
                x0_used = x0
            else:
                x0_used = [v * 1.07 + 0.01 for v in x0]
                got = obj.costIV(th_in + list(x0_used))
        except Exception as e:
            out["viol"].append((dict(sig, what="raised"), dict(case, error="%s: %s" % (type(e).__name__, str(e)[:300]))))
            continue
        out["runs"] += 1
        sol = detmodels.reference_solution(name, full_theta, x0_used, t0, times, d=d)
        yhat = sol[:, [states.index(cc) for cc in cols]]
        if positive_needed and np.min(yhat) <= 0:
            continue
        wfull = None if w is None else np.broadcast_to(np.asarray(w, float), (n, p))
        sfull = None if spread is None else np.broadcast_to(np.asarray(spread, float), (n, p))
        if entry == "residual":
            want = (y - yhat) * (1.0 if wfull is None else wfull)
            g = np.asarray(got, float).reshape(want.shape)
            ok = np.allclose(g, want, rtol=1e-6, atol=1e-7)
            wantv = want.tolist()
            gotv = g.tolist()
        else:
            want = lossref.loss_value(kind, y, yhat, wfull if kind in ("Square", "Normal") else None, sfull)
            ok = abs(float(got) - want) <= 1e-6 * (1 + abs(want))
            if kind == "Square" and thk == 0 and entry == "cost" and (w is None):
                ok = ok and abs(float(got)) <= 1e-10
            wantv, gotv = want, float(got)
        if not ok:
            out["viol"].append((dict(sig, what="value"), dict(case, got=gotv, want=wantv)))
        cols_differ = p == 1 or np.min(np.abs(np.diff(yhat, axis=1))) > 1e-2 or True
        if np.min(np.max(np.abs(np.diff(yhat, axis=0)), axis=1)) > 1e-3 and (p == 1 or np.max(np.abs(yhat[:, 0] - yhat[:, 1])) > 1e-2):
            out["nontrivial"] += 1
    return out


def iv_job(args):
    """costIV with target_state (every ordered subset) on loss objects constructed with the initial state given as float
    list, integer list, integer array or float array: the cost must be that of the trajectory started from the supplied
    (fractional) initial values in the named states and the constructor's values elsewhere"""
    name, seed = args
    out = {"name": name, "viol": [], "runs": 0, "nontrivial": 0}
    c = detmodels.CATALOGUE[name]
    d = c["d"]
    states, params = d["states"], d["params"]
    theta_gen = c["theta"][0]
    theta = [v * 1.13 for v in theta_gen]
    x0f = [float(round(v)) + (1.0 if round(v) == 0 and i == 0 else 0.0) for i, v in enumerate(c["x0"][0])]   # whole numbers
    t0 = 0.0
    times = np.linspace(0.5, 3.0, 6)
    tss = [list(q) for r in range(1, len(states) + 1) for q in itertools.permutations(states, r)]
    conts = {"float-list": lambda v: [float(x) for x in v], "int-list": lambda v: [int(x) for x in v],
             "int-array": lambda v: np.array(v, dtype=int), "float-array": lambda v: np.array(v, dtype=float)}
    for kind in ("Square", "Poisson"):
        cols = states[-2:] if len(states) > 1 else states[:1]
        y = observations(name, d, theta_gen, x0f, t0, times, cols, kind)
        p = y.shape[1]
        yin = y[:, 0].copy() if p == 1 else y.copy()
        for ts in tss:
            for cname, conv in conts.items():
                xin = [x0f[states.index(s)] * 1.07 + 0.43 for s in ts]
                x0_used = list(x0f)
                for s_, v_ in zip(ts, xin):
                    x0_used[states.index(s_)] = v_
                sig = {"loss": kind, "entry": "costIV-target_state", "x0": cname, "target_state": "model-order" if ts == [q for q in states if q in ts] else "permuted"}
                case = {"model": name, "loss": kind, "state_name": cols, "theta": theta, "x0_constructor": x0f, "x0_container": cname, "target_state": ts, "initial_values_supplied": xin}
                try:
                    m, _ = build.build(d)
                    m.parameters = list(theta_gen)
                    obj = lossref.make_loss(kind, list(theta), m, conv(x0f), t0, times, yin, cols if p > 1 else cols[0], target_state=ts)
                    got = float(obj.costIV(list(theta) + xin))
                except Exception as e:
                    out["viol"].append((dict(sig, what="raised"), dict(case, error="%s: %s" % (type(e).__name__, str(e)[:300]))))
                    continue
                out["runs"] += 1
                sol = detmodels.reference_solution(name, theta, x0_used, t0, times, d=d)
                yhat = sol[:, [states.index(cc) for cc in cols]]
                if kind == "Poisson" and np.min(yhat) <= 0:
                    continue
                want = lossref.loss_value(kind, y, yhat, None, None)
                if abs(got - want) > 1e-6 * (1 + abs(want)):
                    out["viol"].append((dict(sig, what="value"), dict(case, got=got, want=want)))
                    continue
                ybase = detmodels.reference_solution(name, theta, x0f, t0, times, d=d)[:, [states.index(cc) for cc in cols]]
                if kind == "Poisson" and np.min(ybase) <= 0:
                    out["nontrivial"] += 1          # the constructor's initial state is not even admissible for this loss
                    continue
                base = lossref.loss_value(kind, y, ybase, None, None)
                if abs(base - want) > 1e-3 * (1 + abs(want)):
                    out["nontrivial"] += 1
    return out


NEAR = 9e-6      # a relative step that a "same input?" test with numpy's default tolerances would call equal


def seq_job(args):
    """a multi-step sequence on ONE loss object (a cache of the last solution, state left behind by a previous call, would
    show): evaluations at a point, at points a hair away from it, somewhere else and back, through cost / residual / costIV,
    each compared with the reference at exactly its own argument"""
    name, kind, cols, seed = args
    out = {"name": name, "viol": [], "runs": 0, "nontrivial": 0}
    c = detmodels.CATALOGUE[name]
    d = c["d"]
    states = d["states"]
    theta_gen, x0 = c["theta"][0], c["x0"][0]
    t0 = 0.0
    times = np.linspace(0.5, 4.0, 8)
    y = observations(name, d, theta_gen, x0, t0, times, cols, kind)
    n, p = y.shape
    yin = y[:, 0].copy() if p == 1 else y.copy()
    th_a = [v * 1.13 for v in theta_gen]
    th_b = list(c["theta"][1])
    near1 = [v * (1 + NEAR) for v in th_a]
    near2 = [v * (1 + NEAR) ** 2 for v in th_a]
    x0n = [v * (1 + NEAR) + 1e-9 for v in x0]
    seq = [("cost", th_a, x0), ("cost", near1, x0), ("residual", near2, x0), ("cost", th_b, x0), ("cost", th_a, x0),
           ("costIV", th_a, x0n), ("costIV", near1, x0n), ("cost", near1, x0), ("residual", th_a, x0), ("cost", theta_gen, x0)]
    sig = {"loss": kind, "entry": "sequence", "nstates": p}
    try:
        m, _ = build.build(d)
        m.parameters = list(theta_gen)
        yin_before = np.array(yin, copy=True)
        x0_arr = np.array(x0, float)
        x0_before = x0_arr.copy()
        obj = lossref.make_loss(kind, list(theta_gen), m, x0_arr, t0, times, yin, cols if p > 1 else cols[0])
        # a second loss object on the SAME model object (another data set, another parameter vector), evaluated in between
        # (same initial state, the same NUMBER of observation times but other times; it is asked about the very parameter
        # vector the object under test is asked about next)
        obj2 = lossref.make_loss("Square", list(th_b), m, list(x0), t0, times * 0.9 + 0.07, np.asarray(y[:, 0]).copy() * 1.1, cols[0])
    except Exception as e:
        out["viol"].append((dict(sig, what="raised"), {"model": name, "loss": kind, "state_name": cols, "error": "%s: %s" % (type(e).__name__, e)}))
        return out
    prev = None
    cur_x0 = list(x0)
    for k, (entry, th, xx) in enumerate(seq):
        # the loss object is stateful by design: costIV leaves its initial values behind as the current initial state (as
        # cost(theta) leaves theta behind for cost()), so what follows a costIV starts from them
        if entry == "costIV":
            cur_x0 = list(xx)
        xx = cur_x0
        if k in (2, 5, 8):
            try:
                obj2.cost(list(th))
            except Exception:
                pass
        try:
            got = obj.cost(list(th)) if entry == "cost" else obj.residual(list(th)) if entry == "residual" else obj.costIV(list(th) + list(xx))
        except Exception as e:
            out["viol"].append((dict(sig, what="raised", step=entry), {"model": name, "loss": kind, "state_name": cols, "step": k, "error": "%s: %s" % (type(e).__name__, e)}))
            break
        out["runs"] += 1
        sol = detmodels.reference_solution(name, th, xx, t0, times, d=d)
        yhat = sol[:, [states.index(cc) for cc in cols]]
        if kind in ("Poisson", "Gamma", "NegBinom") and np.min(yhat) <= 0:
            continue
        if entry == "residual":
            want = y - yhat
            g = np.asarray(got, float).reshape(want.shape)
            ok = np.allclose(g, want, rtol=1e-6, atol=1e-7)
            val = float(np.sum(want))
            gotv, wantv = g.tolist(), want.tolist()
        else:
            want = lossref.loss_value(kind, y, yhat, None, None)
            ok = abs(float(got) - want) <= 1e-6 * (1 + abs(want))
            val = want
            gotv, wantv = float(got), want
        if not ok:
            out["viol"].append((dict(sig, what="value-in-sequence", step=entry),
                                {"model": name, "loss": kind, "state_name": cols, "step": k, "sequence": [(e_, list(t_), list(x_)) for e_, t_, x_ in seq[:k + 1]],
                                 "got": gotv, "want": wantv}))
            break
        # the neighbouring points must be distinguishable at the tolerance used, else the step proves nothing
        if prev is not None and prev[0] == entry and abs(val - prev[1]) > 3e-6 * (1 + abs(val)):
            out["nontrivial"] += 1
        prev = (entry, val)
    if not out["viol"] and (not np.array_equal(np.asarray(yin), yin_before) or not np.array_equal(x0_arr, x0_before)):
        out["viol"].append((dict(sig, what="caller-arrays-modified"), {"model": name, "loss": kind, "state_name": cols,
                                                                      "x0_after": x0_arr.tolist(), "x0_before": x0_before.tolist()}))
    return out


def main(argv=None):
    run = report.Run("C06", "exploration")
    env.load_pygom()
    quick = run.tier == "quick"
    models = ["SIR_norm", "Asym23"] if quick else ["SIR_norm", "Asym23", "Chain3", "Logistic", "Lotka_Volterra"]
    jobs = []
    total = 0
    for nme in models:
        d = detmodels.CATALOGUE[nme]["d"]
        states, params = d["states"], d["params"]
        cfgs = []
        sels = ordered_subsets(states)
        tps = [None] + [list(q) for r in range(1, len(params) + 1) for q in itertools.permutations(params, r) if r < len(params) or list(q) != params]
        if quick:
            tps = [None] + [t_ for t_ in tps[1:] if len(t_) == len(params) or len(t_) == 1][:4]
        for kind in lossref.LOSSES:
            skinds = ["default", "scalar", "per-state", "per-obs"] if kind in lossref.SPREAD_KW else ["default"]
            wkinds = ["none", "per-state", "per-obs"] if kind in ("Square", "Normal") else ["none"]
            for cols in sels:
                for (skind, wkind) in itertools.product(skinds, wkinds):
                    for thk in (0, 1, 2):
                        cfgs.append((kind, cols, thk, "uniform", 0.0, wkind, skind, None, "cost"))
                    cfgs.append((kind, cols, 1, "nonuniform", 0.5, wkind, skind, None, "residual"))
                    cfgs.append((kind, cols, 2, "int", 0.5, wkind, skind, None, "costIV"))
                    cfgs.append((kind, cols, 1, "int", 0.5, wkind, skind, None, "cost-default-theta"))
                for tp in tps[1:]:
                    cfgs.append((kind, cols, 1, "uniform", 0.0, "none", "default", tp, "cost"))
                    # costIV tells its input forms apart by length: a target subset with
                    # len(target)+num_state == num_param is refused by the library (InputError), not evaluated
                    if len(tp) + len(states) != len(params):
                        cfgs.append((kind, cols, 2, "int", 0.5, "none", "default", tp, "costIV"))
        if quick:
            cfgs = cfgs[run.seed % 2::2]
        total += len(cfgs)
        chunk = 40
        for i in range(0, len(cfgs), chunk):
            jobs.append((nme, cfgs[i:i + chunk], run.seed))
    res = pool.pmap(job, jobs, chunksize=1)
    sjobs = [(nme, kind, cols, run.seed) for nme in models for kind in lossref.LOSSES
             for cols in ordered_subsets(detmodels.CATALOGUE[nme]["d"]["states"])[-2:]]
    sres = pool.pmap(seq_job, sjobs, chunksize=1)
    run.count("sequence-leg evaluations", sum(r["runs"] for r in sres))
    run.count("sequence-leg steps where neighbouring points are distinguishable", sum(r["nontrivial"] for r in sres))
    ivres = pool.pmap(iv_job, [(nme, run.seed) for nme in (["Chain3", "Asym23"] if quick else ["Chain3", "Asym23", "Lotka_Volterra", "SEIR", "Logistic"])], chunksize=1)
    run.count("costIV-with-target_state evaluations", sum(r["runs"] for r in ivres))
    res = res + sres + ivres
    runs = sum(r["runs"] for r in res)
    nt = sum(r["nontrivial"] for r in res)
    for r in res:
        for sig, case in r["viol"]:
            run.violation(sig, case)
    run.sample({"model": jobs[0][0], "config": list(map(str, jobs[0][1][3]))})
    run.sample({"model": jobs[-1][0], "config": list(map(str, jobs[-1][1][-1]))})
    run.cov.update({
        "evaluations": runs, "distinct_nontrivial": nt,
        "rule": "models %s x theta {generating, 2 others} x observed-state selections (every ordered subset of <=2 states, the full set and its "
                "reverse) x 5 loss classes x spread {default, scalar, per-state, per-observation} x weights {none, per-state, per-observation} x "
                "target_param (every ordered subset) x entries {cost(theta), cost(), residual, costIV} x observation grids {uniform, non-uniform "
                "with fractional t0, integer-typed with fractional t0}%s: compared (1e-6) with independent loss formulas applied to the reference "
                "trajectory; square loss at the generating parameters <= 1e-10. sequence leg: on ONE loss object per (model, loss, selection) ten "
                "evaluations through cost / residual / costIV at a point, at points a relative 9e-6 away, elsewhere and back, each compared "
                "with the reference at exactly its argument, while a second loss object built on the same model object is evaluated in between; the "
                "observation and initial-state arrays handed to the constructor must come back untouched. target_state leg: costIV for every ordered target_state subset on objects "
                "constructed with x0 as float list / integer list / integer array / float array and fractional initial values supplied. non-trivial = observed columns differ by >1e-2 and rows by >1e-3" % (
                    models, " (quick: every second configuration, selected by VERIF_SEED)" if quick else ""),
        "configurations": total,
    })
    run.assumptions += ["the reference trajectory is a closed form or DOP853(1e-12) on the sympy right-hand side",
                        "weights enter the cost of the Square and Normal losses only (as the library documents)",
                        "costIV with a target_param subset whose length plus the number of states equals the number of parameters is refused by the library with an InputError (ambiguous input length); that combination is not exercised"]
    rc = run.finish(exhaustive=not quick)
    pool.close()
    return rc


if __name__ == "__main__":
    sys.exit(main())
