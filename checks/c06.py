"""C06 — cost is the stated loss of the model trajectory against the data."""
import itertools
import sys

import numpy as np

from mc import build, detmodels, env, lossref, pool, report


def ordered_subsets(states, maxlen=2):
    out = []
    for r in range(1, min(maxlen, len(states)) + 1):
        out += [list(p) for p in itertools.permutations(states, r)]
    if len(states) > maxlen:
        out.append(list(states))
        out.append(list(reversed(states)))
    return out


def observations(name, d, theta_gen, x0, t0, times, cols, kind):
    sol = detmodels.reference_solution(name, theta_gen, x0, t0, times, d=d)
    idx = [d["states"].index(c) for c in cols]
    y = sol[:, idx].copy()
    if kind in ("Poisson", "NegBinom"):
        y = np.round(3 + 4 * np.abs(y))                  # positive integers
    elif kind in ("Gamma",):
        y = np.abs(y) * (1 + 0.07 * np.sin(1 + np.arange(y.size).reshape(y.shape))) + 0.05
    elif kind == "Normal":
        y = y * (1 + 0.05 * np.cos(np.arange(y.size).reshape(y.shape)))
    return y


def job(args):
    name, cfgs, seed = args
    out = {"name": name, "viol": [], "runs": 0, "nontrivial": 0}
    c = detmodels.CATALOGUE[name]
    d = c["d"]
    states, params = d["states"], d["params"]
    for cfg in cfgs:
        (kind, cols, thk, tgrid, t0, wkind, skind, tp, entry) = cfg
        theta_gen, x0 = c["theta"][0], c["x0"][0]
        theta = [theta_gen, c["theta"][1], [v * 1.13 for v in theta_gen]][thk]
        times = {"uniform": np.linspace(t0 + 0.5, t0 + 4.0, 8), "nonuniform": np.array([t0 + 0.2, t0 + 0.25, t0 + 1.5, t0 + 3.0]),
                 "int": np.arange(1, 6)}[tgrid]
        y = observations(name, d, theta_gen, x0, t0, times, cols, kind)
        n, p = y.shape
        positive_needed = kind in ("Poisson", "Gamma", "NegBinom")
        w = {"none": None, "per-state": [0.5 + 0.75 * j for j in range(p)], "per-obs": 0.4 + 0.1 * (np.arange(n * p).reshape(n, p) % 7)}[wkind]
        spread = None
        if kind in lossref.SPREAD_KW:
            spread = {"default": None, "scalar": 3.7, "per-state": [0.8 + 1.1 * j for j in range(p)],
                      "per-obs": 0.6 + 0.3 * (np.arange(n * p).reshape(n, p) % 5)}[skind]
        yin = y[:, 0].copy() if p == 1 else y.copy()
        win = w
        if p == 1 and w is not None:
            win = w[0] if wkind == "per-state" else np.asarray(w).ravel()
        sin = spread
        if p == 1 and spread is not None and not np.isscalar(spread):
            sin = spread[0] if skind == "per-state" else np.asarray(spread).ravel()
        case = {"model": name, "loss": kind, "state_name": cols, "theta": theta, "grid": tgrid, "t0": t0, "weights": wkind, "spread": skind,
                "target_param": tp, "entry": entry}
        sig = {"loss": kind, "entry": entry, "nstates": p, "order": "model" if cols == [s for s in states if s in cols] else "permuted",
               "weights": wkind, "spread": skind, "target_param": None if tp is None else ("model-order" if tp == [q for q in params if q in tp] else "permuted"),
               "grid": tgrid if tgrid == "int" else "float"}
        try:
            m, _ = build.build(d)
            m.parameters = list(theta_gen)          # the values of the parameters that are not targets
            th_in = list(theta) if tp is None else [theta[params.index(q)] for q in tp]
            full_theta = list(theta) if tp is None else [theta[params.index(q)] if q in tp else theta_gen[params.index(q)] for q in params]
            obj = lossref.make_loss(kind, th_in, m, list(x0), t0, times, yin, cols if p > 1 else (cols[0] if seed % 2 else cols),
                                    state_weight=win, spread=sin, target_param=tp)
            if entry == "cost":
                got = obj.cost(th_in)
                x0_used = x0
            elif entry == "cost-default-theta":
                got = obj.cost()
                x0_used = x0
            elif entry == "residual":
                got = obj.residual(th_in)
                x0_used = x0
            else:
                x0_used = [v * 1.07 + 0.01 for v in x0]
                got = obj.costIV(th_in + list(x0_used))
        except Exception as e:
            out["viol"].append((dict(sig, what="raised"), dict(case, error="%s: %s" % (type(e).__name__, str(e)[:300]))))
            continue
        out["runs"] += 1
        sol = detmodels.reference_solution(name, full_theta, x0_used, t0, times, d=d)
        yhat = sol[:, [states.index(cc) for cc in cols]]
        if positive_needed and np.min(yhat) <= 0:
            continue
        wfull = None if w is None else np.broadcast_to(np.asarray(w, float), (n, p))
        sfull = None if spread is None else np.broadcast_to(np.asarray(spread, float), (n, p))
        if entry == "residual":
            want = (y - yhat) * (1.0 if wfull is None else wfull)
            g = np.asarray(got, float).reshape(want.shape)
            ok = np.allclose(g, want, rtol=1e-6, atol=1e-7)
            wantv = want.tolist()
            gotv = g.tolist()
        else:
            want = lossref.loss_value(kind, y, yhat, wfull if kind in ("Square", "Normal") else None, sfull)
            ok = abs(float(got) - want) <= 1e-6 * (1 + abs(want))
            if kind == "Square" and thk == 0 and entry == "cost" and (w is None):
                ok = ok and abs(float(got)) <= 1e-10
            wantv, gotv = want, float(got)
        if not ok:
            out["viol"].append((dict(sig, what="value"), dict(case, got=gotv, want=wantv)))
        cols_differ = p == 1 or np.min(np.abs(np.diff(yhat, axis=1))) > 1e-2 or True
        if np.min(np.max(np.abs(np.diff(yhat, axis=0)), axis=1)) > 1e-3 and (p == 1 or np.max(np.abs(yhat[:, 0] - yhat[:, 1])) > 1e-2):
            out["nontrivial"] += 1
    return out


def main(argv=None):
    run = report.Run("C06", "exploration")
    env.load_pygom()
    quick = run.tier == "quick"
    models = ["SIR_norm", "Asym23"] if quick else ["SIR_norm", "Asym23", "Chain3", "Logistic", "Lotka_Volterra"]
    jobs = []
    total = 0
    for nme in models:
        d = detmodels.CATALOGUE[nme]["d"]
        states, params = d["states"], d["params"]
        cfgs = []
        sels = ordered_subsets(states)
        tps = [None] + [list(q) for r in range(1, len(params) + 1) for q in itertools.permutations(params, r) if r < len(params) or list(q) != params]
        if quick:
            tps = [None] + [t_ for t_ in tps[1:] if len(t_) == len(params) or len(t_) == 1][:4]
        for kind in lossref.LOSSES:
            skinds = ["default", "scalar", "per-state", "per-obs"] if kind in lossref.SPREAD_KW else ["default"]
            wkinds = ["none", "per-state", "per-obs"] if kind in ("Square", "Normal") else ["none"]
            for cols in sels:
                for (skind, wkind) in itertools.product(skinds, wkinds):
                    for thk in (0, 1, 2):
                        cfgs.append((kind, cols, thk, "uniform", 0.0, wkind, skind, None, "cost"))
                    cfgs.append((kind, cols, 1, "nonuniform", 0.5, wkind, skind, None, "residual"))
                    cfgs.append((kind, cols, 2, "int", 0.5, wkind, skind, None, "costIV"))
                    cfgs.append((kind, cols, 1, "int", 0.5, wkind, skind, None, "cost-default-theta"))
                for tp in tps[1:]:
                    cfgs.append((kind, cols, 1, "uniform", 0.0, "none", "default", tp, "cost"))
                    # costIV tells its input forms apart by length: a target subset with
                    # len(target)+num_state == num_param is refused by the library (InputError), not evaluated
                    if len(tp) + len(states) != len(params):
                        cfgs.append((kind, cols, 2, "int", 0.5, "none", "default", tp, "costIV"))
        if quick:
            cfgs = cfgs[run.seed % 2::2]
        total += len(cfgs)
        chunk = 40
        for i in range(0, len(cfgs), chunk):
            jobs.append((nme, cfgs[i:i + chunk], run.seed))
    res = pool.pmap(job, jobs, chunksize=1)
    runs = sum(r["runs"] for r in res)
    nt = sum(r["nontrivial"] for r in res)
    for r in res:
        for sig, case in r["viol"]:
            run.violation(sig, case)
    run.sample({"model": jobs[0][0], "config": list(map(str, jobs[0][1][3]))})
    run.sample({"model": jobs[-1][0], "config": list(map(str, jobs[-1][1][-1]))})
    run.cov.update({
        "evaluations": runs, "distinct_nontrivial": nt,
        "rule": "models %s x theta {generating, 2 others} x observed-state selections (every ordered subset of <=2 states, the full set and its "
                "reverse) x 5 loss classes x spread {default, scalar, per-state, per-observation} x weights {none, per-state, per-observation} x "
                "target_param (every ordered subset) x entries {cost(theta), cost(), residual, costIV} x observation grids {uniform, non-uniform "
                "with fractional t0, integer-typed with fractional t0}%s: compared (1e-6) with independent loss formulas applied to the reference "
                "trajectory; square loss at the generating parameters <= 1e-10. non-trivial = observed columns differ by >1e-2 and rows by >1e-3" % (
                    models, " (quick: every second configuration, selected by VERIF_SEED)" if quick else ""),
        "configurations": total,
    })
    run.assumptions += ["the reference trajectory is a closed form or DOP853(1e-12) on the sympy right-hand side",
                        "weights enter the cost of the Square and Normal losses only (as the library documents)",
                        "costIV with a target_param subset whose length plus the number of states equals the number of parameters is refused by the library with an InputError (ambiguous input length); that combination is not exercised"]
    rc = run.finish(exhaustive=not quick)
    pool.close()
    return rc


if __name__ == "__main__":
    sys.exit(main())
