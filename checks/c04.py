"""C04 — every simulated path is a legal walk of the model's events."""
import sys

from mc import env, gen, pool, report, stoch


def configs(tier):
    bound_models = 1 if tier == "quick" else 2
    seeds = ["SIR", "BD", "ONE"] if tier == "quick" else ["SIR", "BD", "ONE", "CHAIN", "SEIRBD"]
    defs = {}
    feats = {}
    for sname in seeds:
        ov, _ = gen.seed(gen.seed_values(sname), stochastic=True)

        def on_def(o, pts, d, sname=sname):
            k = gen.canon(d)
            if k not in defs:
                defs[k] = (sname, d)
        gen.explore(ov, bound_models, lambda ch: gen.gen_model(ch, stochastic=True), on_def)
    # horizons are chosen per mode so that the all-default execution takes a handful of steps
    modes = [(("exact",), [1.0, 2.5]), (("tau_fixed", 0.4), [1.0, 2.5]),
             (("tau_adaptive", 0.3), [0.5, 1.2]), (("tau_adaptive", 0.03), [0.04, 0.1])]
    out = []
    for i, (k, (sname, d)) in enumerate(sorted(defs.items())):
        ns = len(d["states"])
        x0s = stoch.X0S[ns][:1] if tier == "quick" else stoch.X0S[ns]
        for x0 in x0s:
            x0 = stoch.legal_x0(d, x0)
            for mode, Ts in modes:
                for T in (Ts[:1] if tier == "quick" else Ts):
                    name = "%s#%d/%s/x0=%s/T=%s" % (sname, i, "-".join(map(str, mode)), x0, T)
                    out.append(stoch.Config(d, stoch.theta_for(d), x0, T, mode, name=name))
    return out, len(defs)


def main(argv=None):
    run = report.Run("C04", "model_checking")
    env.load_pygom()
    cfgs, ndefs = configs(run.tier)
    bound = 1 if run.tier == "quick" else 2
    max_exec = 4000 if run.tier == "quick" else 40000
    res = pool.pmap(stoch.explore_config, [(c, bound, max_exec, "c04") for c in cfgs], chunksize=1)
    ex = sum(r["executions"] for r in res)
    steps = sum(r["steps"] for r in res)
    skipped = [r for r in res if r["skipped"]]
    capped = [r["cfg"] for r in res if r["capped"]]
    for r, c in zip(res, cfgs):
        for v in r["violations"]:
            sig = {"what": v["what"], "mode": c.mode[0]}
            run.violation(sig, {"config": c.key(), "violation": v})
        if r["sample"]:
            run.sample(r["sample"])
        run.count("mode:" + c.mode[0], r["executions"])
        if r["skipped"]:
            run.count("skipped:" + r["skipped"][:60])
        for why, n in r["unjudged"].items():
            run.count("unjudged:" + why, n)
    run.cov.update({
        "evaluations": ex,
        "distinct_nontrivial": sum(r.get("n_outcomes", 0) for r in res),
        "rule": "every execution of solve_stochast(T, 1, full_output=True) whose answers to the "
                "library's exponential/poisson draws deviate from the default answer in at most "
                "%d places (menus %s / %s), for %d definitions within %s edits of the seeds; "
                "distinct = distinct recorded state paths per configuration, summed" % (
                    bound, stoch.sched.EXP_MENU, stoch.sched.POIS_MENU, ndefs,
                    1 if run.tier == "quick" else 2),
        "states": steps + len(res),
        "transitions": steps,
        "traces_validated_against_impl": ex,
        "configurations": len(cfgs),
        "definitions": ndefs,
        "deviation_bound_completed": bound,
        "capped_configurations": capped[:20],
        "skipped_configurations": len(skipped),
    })
    run.assumptions += ["rates evaluated by the reference (sympy) at integer states; parameters fixed per definition",
                        "draws reach numpy only through numpy.random.exponential/poisson (verified per execution: global generator state untouched)"]
    rc = run.finish(exhaustive=not capped)
    pool.close()
    return rc


if __name__ == "__main__":
    sys.exit(main())
