"""C04 — every simulated path is a legal walk of the model's events."""
import sys

from mc import env, pool, report, stoch
from checks import _stochfam as fam


def main(argv=None):
    run = report.Run("C04", "model_checking")
    env.load_pygom()
    quick = run.tier == "quick"
    qseeds = ["SIR", "BD", "ONE"]
    seeds = qseeds if quick else ["SIR", "BD", "ONE", "CHAIN", "SEIRBD", "SIRS2", "DRAIN"]
    dbound = 1
    defs, ngen = fam.gather_defs(seeds, dbound)
    seed_defs, _ = fam.gather_defs(seeds, 0)
    # whole executions.  quick: deviation bound 1 on every definition within one edit of three seeds, 2 on the seeds.
    # thorough: bound 1 on every definition within one edit of seven seeds (all initial states and horizons), bound 2 on
    # the one-edit neighbourhood of the three quick seeds, bound 3 on the seeds themselves
    cfgs = fam.l2_configs(defs, run.tier)
    bound = 1
    jobs = [(c, 1, 6000 if quick else 20000, "c04") for c in cfgs]
    if not quick:
        qdefs, _ = fam.gather_defs(qseeds, 1)
        c2 = fam.l2_configs(qdefs, "quick")
        jobs += [(c, 2, 60000, "c04") for c in c2]
        cfgs = cfgs + c2
        bound = 2
    extra = fam.l2_configs(seed_defs, run.tier, modes=fam.MODES[:3], near=True)
    # the deeper (and longer) explorations go first so that the pool stays busy
    jobs = [(c, 2 if quick else 3, 20000 if quick else 200000, "c04") for c in extra] + jobs
    cfgs = extra + cfgs
    # large-population leg: hundreds of individuals (leaps really move many individuals at once; refused leaps fall back
    # to single exact events), answers relative to the requested mean, four default steps
    big_seeds = ["SIR", "BD", "ONE", "CHAIN", "SEIRBD"]
    bdefs, _ = fam.gather_defs(big_seeds, 0 if quick else 1)
    big, big_skipped = fam.big_configs(bdefs, pool.pmap)
    seed_keys = {fam.gen.canon(d) for _s, d in fam.gather_defs(big_seeds, 0)[0]} if not quick else None
    for c in big:
        deep = len(c.d["events"]) <= 3 if quick else fam.gen.canon(c.d) in seed_keys
        jobs.append((c, 2 if deep else 1, 100000, "c04"))
    cfgs = cfgs + big
    longc = fam.long_configs(fam.gather_defs(["CHAIN", "ONE", "SIR", "BD"], 0)[0])
    jobs += [(c, 0, 10, "c04") for c in longc]
    cfgs = cfgs + longc
    res = pool.pmap(stoch.explore_config, jobs, chunksize=1)
    ex, steps, capped, nout = fam.summarize_l2(run, res, cfgs)
    # explicit-state search through the real step functions
    l1j = fam.l1_jobs(defs, run.tier)
    l1 = pool.pmap(stoch.l1_explore, l1j, chunksize=1)
    l1s, l1t = fam.summarize_l1(run, l1, l1j)
    run.cov.update({
        "evaluations": ex + l1t,
        "distinct_nontrivial": nout + l1s,
        "rule": "L2: every execution of solve_stochast(T, 1, full_output=True) whose answers to the library's "
                "exponential/poisson draws deviate from the default answer in at most %d places (%d on the seed "
                "models; thorough: 1 on all, 2 on the one-edit neighbourhood of SIR/BD/ONE; menus %s / %s) for %d event-only definitions within %d named-choice edits of seeds %s; "
                "L1: breadth-first search over integer states (population cap) calling the real firstReaction for "
                "every ordering of the enabled clocks and the real tauLeap for every vector of poisson answers. "
                "distinct = distinct recorded paths per configuration (L2) + distinct states (L1)" % (
                    bound, 2 if quick else 3, stoch.sched.EXP_MENU, stoch.sched.POIS_MENU, len(defs), dbound, seeds),
        "states": l1s,
        "transitions": l1t,
        "traces_validated_against_impl": ex,
        "L2_steps_checked": steps,
        "configurations": len(cfgs),
        "large_population_configurations": len(big),
        "long_run_configurations": [c.name for c in longc],
        "large_population_rule": "populations of 800-1000 individuals %s, modes %s, poisson answers relative to the requested mean "
                                 "(rounded mean | 0 | mean+3 sigma+1 | 10^7), horizon between the 3rd and 4th time of the all-default "
                                 "execution, deviation bound 2 (quick: 1 for definitions with more than 3 events; thorough: 1 off the seeds); "
                                 "%d configurations whose default execution ends before 4 steps left out" % (fam.BIG_X0, fam.BIG_MODES, big_skipped),
        "definitions": len(defs),
        "generator_executions": ngen,
        "deviation_bound_completed": bound,
        "capped_configurations": capped[:20],
    })
    run.assumptions += [
        "reference rates and state-change matrix come from sympy on the definition, never from pygom",
        "draws reach numpy only through numpy.random.exponential/poisson (verified per execution: the global generator state is untouched and no private generator is constructed)",
        "populations <= 5 (L2; 800-1000 in the large-population leg) / <= cap (L1); parameters fixed per definition; tau is taken from the implementation (the property does not prescribe the step size) and only required to be positive and consistent across the poisson requests"]
    rc = run.finish(exhaustive=not capped)
    pool.close()
    return rc


if __name__ == "__main__":
    sys.exit(main())
