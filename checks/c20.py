"""C20 — curvature information (jtj, hessian) matches the cost it describes."""
import itertools
import sys

import numpy as np

from mc import build, detmodels, env, lossref, pool, report, varref
from checks.c06 import ordered_subsets

_VR = {}
ADDITIVE = ["Additive", "Additive2", "Additive1"]


def vrs(name):
    if name not in _VR:
        d = detmodels.CATALOGUE[name]["d"]
        full = varref.VarRef(d, second_order=True)
        _VR[name] = (full, varref.VarRef(d, second_order="truncated") if full.has_mixed else None)
    return _VR[name]


def data(name, d, theta_gen, x0, t0, times, cols):
    """observations that are NOT the model solution, so that residuals (and with them the second-order term) do not vanish"""
    sol = detmodels.reference_solution(name, theta_gen, x0, t0, times, d=d)
    y = sol[:, [d["states"].index(c) for c in cols]].copy()
    return y * (1 + 0.15 * np.cos(np.arange(y.size).reshape(y.shape))) + 0.05


def ref_curvature(vr, full_theta, x0, t0, times, idx, pidx, y, wfull):
    X, S, Z, H = vr.solve(full_theta, x0, t0, times)
    w2 = np.ones_like(y) if wfull is None else wfull ** 2
    r = y - X[:, idx]
    Ss = S[:, idx][:, :, pidx]                                   # (n, s, q)
    jtj = np.einsum("ij,ija,ijb->ab", w2, Ss, Ss)
    Hs = H[:, idx][:, :, pidx][:, :, :, pidx]                     # (n, s, q, q)
    second = -2.0 * np.einsum("ij,ijab->ab", w2 * r, Hs)
    grad = -2.0 * np.einsum("ij,ija->a", w2 * r, Ss)
    return jtj, 2.0 * jtj + second, second, grad


def job(args):
    name, cfgs, seed = args
    out = {"name": name, "viol": [], "runs": 0, "nontrivial": 0, "keys": [], "known_decidable": 0, "xcheck": 0}
    c = detmodels.CATALOGUE[name]
    d = c["d"]
    states, params = d["states"], d["params"]
    vr, vrt = vrs(name)
    for cfg in cfgs:
        (kind, cols, thk, tgrid, t0, wkind, tp, entry, meth, fo) = cfg
        theta_gen, x0 = c["theta"][0], c["x0"][0]
        theta = [theta_gen, c["theta"][1], [v * 1.13 for v in theta_gen]][thk]
        times = {"uniform": np.linspace(t0 + 0.5, t0 + 3.0, 6), "int": np.arange(1, 5), "two": np.array([t0 + 0.8, t0 + 2.0])}[tgrid]
        y = data(name, d, theta_gen, x0, t0, times, cols)
        if kind in ("Poisson", "NegBinom"):
            y = np.round(3 + 4 * np.abs(y))
        n, p = y.shape
        w = {"none": None, "per-state": [0.5 + 0.75 * j for j in range(p)], "per-obs": 0.4 + 0.1 * (np.arange(n * p).reshape(n, p) % 7)}[wkind]
        yin = y[:, 0].copy() if p == 1 else y.copy()
        win = w
        if p == 1 and w is not None:
            win = w[0] if wkind == "per-state" else np.asarray(w).ravel()
        case = {"cfg": list(cfg), "model": name, "loss": kind, "state_name": cols, "theta": theta, "grid": tgrid, "t0": t0, "weights": wkind,
                "target_param": tp, "entry": entry, "method": meth, "full_output": fo}
        sig = {"entry": entry, "loss": kind, "nstates": p, "order": "model" if cols == [s for s in states if s in cols] else "permuted",
               "weights": wkind, "target_param": None if tp is None else ("model-order" if tp == [q for q in params if q in tp] else "permuted"),
               "grid": tgrid}
        try:
            m, _ = build.build(d)
            m.parameters = list(theta_gen)
            th_in = list(theta) if tp is None else [theta[params.index(q)] for q in tp]
            full_theta = list(theta) if tp is None else [theta[params.index(q)] if q in tp else theta_gen[params.index(q)] for q in params]
            obj = lossref.make_loss(kind, th_in, m, list(x0), t0, times, yin, cols if p > 1 else cols[0], state_weight=win, target_param=tp)
            fn = getattr(obj, entry)
            r = fn(th_in, full_output=fo, method=meth)
            got = np.asarray(r[0] if fo else r, float)
        except Exception as e:
            out["viol"].append((dict(sig, what="raised"), dict(case, error="%s: %s" % (type(e).__name__, str(e)[:300]))))
            continue
        out["runs"] += 1
        idx = [states.index(cc) for cc in cols]
        pidx = list(range(len(params))) if tp is None else [params.index(q) for q in tp]
        wfull = None if w is None else np.broadcast_to(np.asarray(w, float), (n, p))
        jtj, hess, second, grad = ref_curvature(vr, full_theta, x0, t0, times, idx, pidx, y, wfull)
        q = len(pidx)
        if got.shape != (q, q):
            out["viol"].append((dict(sig, what="shape"), dict(case, got_shape=list(got.shape), want_shape=[q, q])))
            continue
        want = jtj if entry == "jtj" else hess
        scale = np.max(np.abs(want)) + 1e-12
        tol = 2e-5 * scale + 1e-9
        if entry == "jtj":
            bad = None
            if not np.all(np.abs(got - want) <= tol):
                bad = "value"
            elif not np.allclose(got, got.T, rtol=1e-12, atol=1e-12 * scale):
                bad = "not-symmetric"
            elif np.min(np.linalg.eigvalsh((got + got.T) / 2)) < -1e-9 * scale:
                bad = "not-psd"
            if bad:
                out["viol"].append((dict(sig, what=bad), dict(case, got=got.tolist(), want=want.tolist())))
                continue
            # distinguishing power: entries differ (a permuted or transposed parameter order would show) when q > 1
            if q == 1 or abs(want[0, 0] - want[-1, -1]) > 0.01 * scale:
                out["nontrivial"] += 1
                out["keys"].append((name, entry, tuple(cols), wkind, None if tp is None else tuple(tp)))
            continue
        # ---- hessian
        if np.all(np.abs(got - want) <= tol):
            if np.max(np.abs(second)) > 0.01 * scale:
                out["nontrivial"] += 1
                out["keys"].append((name, entry, tuple(cols), wkind, None if tp is None else tuple(tp)))
            continue
        if vrt is not None:
            _, hess_t, second_t, _ = ref_curvature(vrt, full_theta, x0, t0, times, idx, pidx, y, wfull)
            if np.max(np.abs(hess_t - want)) > 50 * tol:
                out["known_decidable"] += 1
                if np.all(np.abs(got - hess_t) <= tol):
                    # exactly the documented defect: the second-order sensitivities are integrated without the mixed
                    # state-parameter and the parameter-parameter terms; everything else about the result is right
                    out["viol"].append((dict(sig, what="matches-truncated-second-order-system"),
                                        dict(case, got=got.tolist(), want=want.tolist(), truncated=hess_t.tolist())))
                    out["nontrivial"] += 1
                    out["keys"].append((name, entry, tuple(cols), wkind, None if tp is None else tuple(tp)))
                    continue
        out["viol"].append((dict(sig, what="value"), dict(case, got=got.tolist(), want=want.tolist())))
    return out


def oracle_selfcheck(name):
    """the reference Hessian is the derivative of the reference gradient (central differences), once per model"""
    c = detmodels.CATALOGUE[name]
    d = c["d"]
    vr, _ = vrs(name)
    theta, x0 = c["theta"][1], c["x0"][0]
    times = np.linspace(0.5, 3.0, 6)
    cols = d["states"][:2]
    idx = [d["states"].index(s) for s in cols]
    pidx = list(range(len(theta)))
    y = data(name, d, c["theta"][0], x0, 0.0, times, cols)
    _, hess, _, _ = ref_curvature(vr, theta, x0, 0.0, times, idx, pidx, y, None)
    fd = np.zeros_like(hess)
    for a in pidx:
        h = 1e-5 * max(1.0, abs(theta[a]))
        tp_, tm_ = list(theta), list(theta)
        tp_[a] += h
        tm_[a] -= h
        gp = ref_curvature(vr, tp_, x0, 0.0, times, idx, pidx, y, None)[3]
        gm = ref_curvature(vr, tm_, x0, 0.0, times, idx, pidx, y, None)[3]
        fd[a] = (gp - gm) / (2 * h)
    err = float(np.max(np.abs(fd - hess)) / (np.max(np.abs(hess)) + 1e-12))
    return name, err


def main(argv=None):
    run = report.Run("C20", "exploration")
    env.load_pygom()
    quick = run.tier == "quick"
    models = (["Additive", "Additive2", "SIR_norm", "Asym23"] if quick else
              ["Additive", "Additive2", "Additive1", "SIR_norm", "Asym23", "Chain3", "Logistic", "ParamProduct", "FitzHugh", "SEIR"])
    jobs = []
    total = 0
    for nme in models:
        d = detmodels.CATALOGUE[nme]["d"]
        states, params = d["states"], d["params"]
        sels = ordered_subsets(states)
        tps = [None] + [list(q) for r in range(1, len(params) + 1) for q in itertools.permutations(params, r) if list(q) != params]
        cfgs = []
        for cols in sels:
            for wkind in ("none", "per-state", "per-obs"):
                for thk in (1, 2):
                    cfgs.append(("Square", cols, thk, "uniform", 0.0, wkind, None, "hessian", None, False))
                    cfgs.append(("Square", cols, thk, "uniform", 0.0, wkind, None, "jtj", None, False))
                cfgs.append(("Square", cols, 1, "int", 0.5, wkind, None, "hessian", None, True))
                cfgs.append(("Square", cols, 1, "int", 0.5, wkind, None, "jtj", None, True))
                cfgs.append(("Normal", cols, 2, "uniform", 0.5, wkind, None, "jtj", None, False))
            cfgs.append(("Square", cols, 0, "uniform", 0.0, "none", None, "hessian", None, False))
            cfgs.append(("Square", cols, 1, "two", 0.0, "none", None, "hessian", None, False))
            cfgs.append(("Square", cols, 1, "two", 0.0, "none", None, "jtj", None, False))
            for kind in ("Poisson", "Gamma", "NegBinom"):
                cfgs.append((kind, cols, 1, "uniform", 0.0, "none", None, "jtj", None, False))
            for tp in tps[1:]:
                for wkind in ("none", "per-obs"):
                    cfgs.append(("Square", cols, 1, "uniform", 0.0, wkind, tp, "hessian", None, False))
                    cfgs.append(("Square", cols, 2, "uniform", 0.0, wkind, tp, "jtj", None, False))
        for meth in ("lsoda", "vode", "dopri5"):
            for fo in (False, True):
                cfgs.append(("Square", sels[-1], 1, "uniform", 0.0, "none", None, "hessian", meth, fo))
                cfgs.append(("Square", sels[0], 2, "uniform", 0.0, "per-state", None, "jtj", meth, fo))
        if quick:
            cfgs = cfgs[run.seed % 2::2]
        total += len(cfgs)
        chunk = 12
        for i in range(0, len(cfgs), chunk):
            jobs.append((nme, cfgs[i:i + chunk], run.seed))
    res = pool.pmap(job, jobs, chunksize=1)
    xc = pool.pmap(oracle_selfcheck, models, chunksize=1)
    for nme, err in xc:
        if err > 1e-5:
            raise report.HarnessError("reference Hessian of %s disagrees with differences of the reference gradient (%.2e)" % (nme, err))
    runs = sum(r["runs"] for r in res)
    keys = set()
    for r in res:
        keys.update(r["keys"])
        for sig, case in r["viol"]:
            run.violation(sig, case)
    run.count("hessian_cases_where_truncated_and_full_reference_differ", sum(r["known_decidable"] for r in res))
    run.sample({"model": jobs[0][0], "config": list(map(str, jobs[0][1][0]))})
    run.sample({"model": jobs[-1][0], "config": list(map(str, jobs[-1][1][-1]))})
    run.cov.update({
        "evaluations": runs, "distinct_nontrivial": len(keys),
        "rule": "models %s (the Additive* family has no mixed/parameter second derivatives) x theta {generating, 2 others} x observed-state "
                "selections in every order x weights {none, per-state, per-observation} x target_param (every ordered subset) x {jtj, hessian} x "
                "methods {None, lsoda, vode, dopri5} x full_output x grids {float, two points, integer-typed with fractional t0}; jtj also for the "
                "Normal/Poisson/Gamma/NegBinom classes%s. jtj == sum_i (W_i S_i)^T (W_i S_i) from the reference variational system, symmetric, "
                "eigenvalues >= 0; hessian == second derivative of the reference weighted square-loss cost (second-order variational system from "
                "sympy, DOP853 1e-12; itself checked against differences of the reference gradient). distinct non-trivial = distinct (model, entry, "
                "selection, weights, target) whose reference matrix has unequal diagonal ends (jtj) / a second-order term above 1%% (hessian)" % (
                    models, " (quick: every second configuration, selected by VERIF_SEED)" if quick else ""),
        "configurations": total,
        "oracle_selfcheck_max_rel_err": max(e for _, e in xc),
    })
    run.assumptions += ["data are a perturbed reference trajectory so that residuals are non-zero",
                        "a hessian that equals the reference computed WITHOUT the mixed state-parameter and parameter-parameter terms of the "
                        "second-order sensitivity system (and differs from the full reference) is the recorded known finding; any other discrepancy is a violation"]
    rc = run.finish(exhaustive=not quick)
    pool.close()
    return rc


if __name__ == "__main__":
    sys.exit(main())
