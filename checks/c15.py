"""C15 — gridded stochastic output agrees with the underlying path."""
import sys

import numpy as np

from mc import env, pool, report, stoch, sched
from checks import _stochfam as fam

E = sched.EXP_MENU[0]
GRIDS = {
    "uniform": [0.0, 0.5, 1.0, 1.5, 2.0],
    "fine": [round(0.05 * k, 10) for k in range(0, 25)],
    "late-start": [0.4, 0.9, 1.7],
    "long-tail": [0.0, 1.0, 2.0, 4.0, 8.0],
    # grid times a hair before / after the event times of the all-default execution
    "near-miss": [0.0, E * (1 - 2e-7), 2 * E * (1 + 2e-7), 3 * E * (1 - 2e-7), 4 * E * (1 + 2e-7), 1.6],
    "two-points": [0.0, 0.7],
    # not equally spaced, although the first and the last step equal the mean step (observations bunched in the middle);
    # the second event of the all-default exact execution (2E) and the second fixed leap (0.8) fall in intervals whose
    # index differs from the one an equally spaced lattice over the same range would give
    "late-obs": [0.0, 0.25, 0.5, 0.6, 0.7, 1.25, 1.5, 1.75, 2.0],
}


def main(argv=None):
    run = report.Run("C15", "model_checking")
    env.load_pygom()
    quick = run.tier == "quick"
    seeds = ["SIR", "BD", "ONE"] if quick else ["SIR", "BD", "ONE", "CHAIN", "SIRS2", "DRAIN", "SEIRBD"]
    dbound = 1
    defs, ngen = fam.gather_defs(seeds, dbound)
    seed_defs, _ = fam.gather_defs(seeds, 0)
    seedkeys = {stoch.gen.canon(d) for _s, d in seed_defs} if hasattr(stoch, "gen") else set()
    from mc import gen
    seedkeys = {gen.canon(d) for _s, d in seed_defs}
    cfgs, jobs = [], []
    bound = 1 if quick else 2
    for i, (sname, d) in enumerate(defs):
        is_seed = gen.canon(d) in seedkeys
        ns = len(d["states"])
        x0 = stoch.legal_x0(d, stoch.X0S[ns][0])
        x00 = stoch.legal_x0(d, [0] * ns)          # possibly no enabled event at all
        for mode in ([("exact",), ("tau_fixed", 0.4)] if (quick and not is_seed) else [("exact",), ("tau_fixed", 0.4), ("tau_adaptive", 0.3)]):
            names = list(GRIDS) if (is_seed or not quick) else ["uniform", "fine", "near-miss", "late-start", "late-obs"]
            for gname in names:
                g = GRIDS[gname]
                conts = ["list", "tuple", "array"] if is_seed else ["array" if (i % 2) else "list"]
                for cont in conts:
                    grid = {"list": list(g), "tuple": tuple(g), "array": np.array(g)}[cont]
                    for xx in ([x0, x00] if is_seed else [x0]):
                        name = "%s#%d/%s/grid=%s/%s/x0=%s" % (sname, i, "-".join(map(str, mode)), gname, cont, xx)
                        c = stoch.Config(d, stoch.theta_for(d), xx, float(g[-1]), mode, grid=grid, name=name)
                        cfgs.append(c)
                        # thorough: deviation bound 2 within one edit of SIR/BD/ONE on the uniform and near-miss grids, 1 elsewhere, 3 on the seeds
                        b = (2 if quick else 3) if (is_seed and cont == "array" and gname in ("fine", "near-miss", "uniform")) else \
                            (bound if (quick or (sname in ("SIR", "BD", "ONE") and gname in ("uniform", "near-miss"))) else 1)
                        jobs.append((c, b, 8000 if quick else 80000, "c15"))
    order = sorted(range(len(jobs)), key=lambda k: -jobs[k][1])
    jobs = [jobs[k] for k in order]
    cfgs = [cfgs[k] for k in order]
    res = pool.pmap(stoch.explore_config, jobs, chunksize=1)
    ex, steps, capped, nout = fam.summarize_l2(run, res, cfgs, sigfn=lambda c, v: {"grid": c.name.split("grid=")[1].split("/")[0]})
    for c in cfgs:
        run.count("grid:" + c.name.split("grid=")[1].split("/")[0])
    run.cov.update({
        "evaluations": ex, "distinct_nontrivial": nout,
        "rule": "every execution of solve_stochast(grid, 1, full_output=True) with at most %d (seeds: %d) non-default "
                "answers to the library's draws, for %d definitions x grids %s x containers {list,tuple,ndarray} x "
                "{exact, fixed tau, adaptive tau}; expected rows and per-interval per-event counts are computed from the "
                "reference path driven by the same answers; distinct = distinct gridded outputs per configuration" % (
                    bound, 2 if quick else 3, len(defs), sorted(GRIDS)),
        "states": steps + len(cfgs), "transitions": steps, "traces_validated_against_impl": ex,
        "configurations": len(cfgs), "definitions": len(defs), "deviation_bound_completed": bound,
        "capped_configurations": capped[:20],
    })
    run.assumptions += ["event times never coincide with grid times (answer menus are chosen so; coincidences are skipped and counted)",
                        "tau-leap rows are interpolated by design: only the row count, the first row and the total counts are judged there",
                        "first row = initial state is required when the grid starts at the initial time"]
    rc = run.finish(exhaustive=not capped)
    pool.close()
    return rc


if __name__ == "__main__":
    sys.exit(main())
