"""C10 — closed compartmental models conserve the total population."""
import sys

import numpy as np
import sympy as sp

from mc import build, env, gen, points, pool, ref, report, stoch
from checks import _stochfam as fam


def sym_job(args):
    """(a) symbolic/numeric: components of the ODE of a transition-only model sum to zero"""
    name, d, seed = args
    out = {"name": name, "viol": [], "nontrivial": False, "skipped": None}
    try:
        m, order = build.build(d)
        R = ref.Ref(d)
    except Exception as e:
        out["skipped"] = "build: %s: %s" % (type(e).__name__, e)
        return out
    try:
        eq = m.get_ode_eqn()
        tot = sum(list(eq), sp.Integer(0))
        if not ref.is_zero(tot):
            out["viol"].append({"what": "symbolic-ode-sum-nonzero", "sum": str(sp.simplify(tot))})
        out["nontrivial"] = any(e != 0 for e in eq)
        ns, npar = len(d["states"]), len(d["params"])
        for (x, t, th) in points.points(ns, npar, seed):
            m.parameters = list(th)
            v = np.asarray(m.ode(x, t), float)
            scale = float(np.sum(np.abs(v))) + 1.0
            if abs(float(v.sum())) > 1e-10 * scale:
                out["viol"].append({"what": "numeric-ode-sum-nonzero", "point": [x, t, th], "ode": v.tolist()})
                break
            # the evaluated right-hand side is the reference one (so a "conserving but wrong" ode is not accepted)
            want = np.asarray([r[0] for r in R.num(R.f, x, t, th)])
            if not np.allclose(v, want, rtol=1e-9, atol=1e-12):
                out["viol"].append({"what": "ode-differs-from-reference", "point": [x, t, th], "ode": v.tolist(), "want": want.tolist()})
                break
    except Exception as e:
        out["viol"].append({"what": "raised", "error": "%s: %s" % (type(e).__name__, e)})
    return out


def det_job(args):
    """(b) deterministic solutions keep the sum of states"""
    name, d, seed = args
    out = {"name": name, "viol": [], "runs": 0, "nontrivial": 0, "skipped": None}
    try:
        m, order = build.build(d)
        ns = len(d["states"])
        x0 = [3.0, 1.0, 0.5, 2.0, 1.5][:ns]
        m.parameters = stoch.theta_for(d)
        m.initial_values = (np.array(x0), 0.0)
        tot = sum(x0)
        # only judge models whose reference solution stays in the closed positive orthant, where
        # every rate template is smooth (otherwise the solution may run into a pole of a rate)
        from scipy.integrate import solve_ivp
        R = ref.Ref(d)
        ff = R.fast(R.f)
        th = stoch.theta_for(d)
        rs_ = solve_ivp(lambda t, x: [r[0] for r in ff(x, t, th)], (0.0, 2.0), x0, method="DOP853", rtol=1e-10, atol=1e-12,
                        dense_output=False, max_step=0.05)
        if (not rs_.success) or np.min(rs_.y) < -1e-9 or not np.all(np.isfinite(rs_.y)):
            out["skipped"] = "reference solution leaves the positive orthant"
            return out
        grids = [np.linspace(0.1, 2.0, 8), np.array([0.3, 0.35, 1.7])]
        for g in grids:
            for ep in ("integrate", "solve_determ", "integrate2:None", "integrate2:dopri5", "integrate2:vode"):
                try:
                    if ep == "integrate":
                        sol = m.integrate(g)
                    elif ep == "solve_determ":
                        sol = m.solve_determ(g)
                    else:
                        meth = ep.split(":")[1]
                        sol = m.integrate2(g, method=None if meth == "None" else meth)
                except Exception as e:
                    # blow-ups of the integrator on odd generated rates are not this property's business
                    out["skipped"] = "integration failed: %s" % type(e).__name__
                    continue
                sol = np.asarray(sol, float)
                out["runs"] += 1
                if not np.all(np.isfinite(sol)):
                    continue
                if np.max(np.abs(sol[-1] - sol[0])) > 1e-3:
                    out["nontrivial"] += 1
                dev = np.max(np.abs(sol.sum(axis=1) - tot))
                if dev > 1e-7 * (1 + tot + np.max(np.abs(sol))):
                    out["viol"].append({"what": "row-sum-drifts", "entry": ep, "dev": float(dev), "grid": g.tolist()})
    except Exception as e:
        out["skipped"] = "build: %s: %s" % (type(e).__name__, e)
    return out


def main(argv=None):
    run = report.Run("C10", "model_checking")
    env.load_pygom()
    quick = run.tier == "quick"
    # (a)+(b): transition-only definitions with any rate template and magnitude (also symbolic)
    seeds_det = ["SIR", "SIRS2", "CHAIN"]
    dbound = 2          # quick: every third definition of the 2-edit neighbourhoods; thorough: all of them
    defs = {}
    ngen = 0
    for sname in seeds_det:
        ov, _ = gen.seed(gen.seed_values(sname), only_T=True)

        def on_def(o, pts, d, sname=sname):
            if d["odes"]:
                return
            defs.setdefault(gen.canon(d), (sname, d))
        ngen += gen.explore(ov, dbound, lambda ch: gen.gen_model(ch, only_T=True), on_def,
                            limit=None)
    dlist = [(s, d) for _k, (s, d) in sorted(defs.items())]
    if quick:
        dlist = dlist[::3]
    symres = pool.pmap(sym_job, [("%s#%d" % (s, i), d, run.seed) for i, (s, d) in enumerate(dlist)])
    for r, (s, d) in zip(symres, dlist):
        for v in r["viol"]:
            run.violation({"leg": "ode", "what": v["what"]}, {"def": d, "violation": v})
        if r["skipped"]:
            run.count("ode-leg skipped:" + r["skipped"][:50])
    nsym = sum(1 for r in symres if not r["skipped"])
    nsym_nt = sum(1 for r in symres if r["nontrivial"])
    for _s, d in dlist:
        for ev in d["events"]:
            for tr in ev["trans"]:
                run.count("magnitude:" + ("symbolic" if not tr[3].isdigit() else tr[3]))
    # (b) on a slice
    det_defs = dlist[:: (8 if quick else 3)]
    detres = pool.pmap(det_job, [("%s#%d" % (s, i), d, run.seed) for i, (s, d) in enumerate(det_defs)])
    for r, (s, d) in zip(detres, det_defs):
        for v in r["viol"]:
            run.violation({"leg": "deterministic", "what": v["what"], "entry": v.get("entry")}, {"def": d, "violation": v})
    for r in detres:
        if r["skipped"]:
            run.count("deterministic-leg skipped:" + r["skipped"][:60])
    ndet = sum(r["runs"] for r in detres)
    ndet_nt = sum(r["nontrivial"] for r in detres)
    # (c) stochastic paths keep the total exactly
    sseeds = ["SIR", "CHAIN", "SIRS2"]
    sdefs, _ = fam.gather_defs(sseeds, 1, only_T=True)
    seed_defs, _ = fam.gather_defs(sseeds, 0, only_T=True)
    cfgs = fam.l2_configs(sdefs, run.tier)
    extra = fam.l2_configs(seed_defs, run.tier, modes=fam.MODES[:3])
    jobs = [(c, 2 if quick else 3, 20000 if quick else 200000, "c10") for c in extra]
    jobs += [(c, 1, 6000 if quick else 20000, "c10") for c in cfgs]
    if not quick:
        # deviation bound 2 on the same definitions with the quick set of initial states and horizons
        c2 = fam.l2_configs(sdefs, "quick")
        jobs += [(c, 2, 60000, "c10") for c in c2]
        cfgs = cfgs + c2
    cfgs = extra + cfgs
    # large-population leg (see _stochfam.big_configs): 1 000 individuals, answers relative to the requested mean
    big, big_skipped = fam.big_configs(seed_defs if quick else sdefs, pool.pmap)
    seed_keys = {fam.gen.canon(d) for _s, d in seed_defs}
    jobs += [(c, 2 if fam.gen.canon(c.d) in seed_keys else 1, 100000, "c10") for c in big]
    cfgs = cfgs + big
    res = pool.pmap(stoch.explore_config, jobs, chunksize=1)
    ex, steps, capped, nout = fam.summarize_l2(run, res, cfgs)
    l1j = fam.l1_jobs(sdefs, run.tier)
    l1 = pool.pmap(l1_conserve, l1j, chunksize=1)
    l1s = sum(r["states"] for r in l1)
    l1t = sum(r["transitions"] for r in l1)
    for r, j in zip(l1, l1j):
        for v in r["violations"]:
            run.violation({"leg": "stochastic-step", "what": v["what"]}, {"model": j[0], "def": j[1], "violation": v})
    run.cov.update({
        "evaluations": nsym + ndet + ex + l1t,
        "distinct_nontrivial": nsym_nt + ndet_nt + nout,
        "rule": "(a) every transition-only definition within %d named-choice edits of seeds %s (all rate templates, magnitudes "
                "1,2,3 and symbolic): sum(get_ode_eqn()) is identically 0 and the numeric ode sums to 0 and equals the reference "
                "right-hand side at 4 points; (b) integrate/solve_determ/integrate2 on a slice: row sums constant; (c) every "
                "execution of solve_stochast within the deviation bound and every step from every reachable state (L1) keeps the "
                "total exactly. non-trivial = definition with a non-zero ode / solution that moves by >1e-3 / distinct paths" % (dbound, seeds_det),
        "large_population_configurations": len(big), "large_population_skipped": big_skipped,
        "states": l1s, "transitions": l1t, "traces_validated_against_impl": ex,
        "definitions_symbolic": nsym, "deterministic_runs": ndet, "generator_executions": ngen,
        "capped_configurations": capped[:20],
    })
    run.assumptions += ["sympy decides sum(ode)==0 (expand/simplify, numeric probes as a last resort)"]
    rc = run.finish(exhaustive=not capped)
    pool.close()
    return rc


def l1_conserve(job):
    """L1 with the conservation invariant checked on every successor the real step functions return"""
    r = stoch.l1_explore(job)
    name, d, theta, x0, cap, tms, pois = job
    starts = x0 if isinstance(x0[0], (list, tuple)) else [x0]
    tot = {sum(s) for s in starts}
    for xt, kern in r["kernel"].items():
        for w, xn in kern["succ"].items():
            if xn is not None and sum(xn) != sum(xt):
                r["violations"].append({"what": "step-changes-total", "state": list(xt), "next": xn})
    r["kernel"] = None
    return r


if __name__ == "__main__":
    sys.exit(main())
