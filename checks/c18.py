"""C18 — fit stays inside the box and never returns something worse than its start."""
import itertools
import signal
import sys

import numpy as np

from mc import build, detmodels, env, lossref, pool, report
from checks.c06 import observations

TIMES = np.linspace(0.5, 4.0, 8)
FIT_TIMEOUT = 120          # seconds of processor time; a fit that needs longer is counted as cut, not judged


class _Timeout(Exception):
    pass


def _alarm(*a):
    raise _Timeout()


def make_box(kind, tstar, q):
    """per-parameter boxes derived from the generating values (so lower and upper bounds differ between parameters)"""
    t = np.asarray(tstar, float)
    if kind == "wide":
        return 0.25 * t, 3.0 * t
    if kind == "tight-excludes-truth":
        return 1.15 * t, 1.9 * t
    if kind == "tight-below-truth":
        return 0.45 * t, 0.85 * t
    if kind == "descending":                 # bounds strictly decreasing along the parameter vector, truth inside
        f = np.array([3.0 / (1.6 ** i) for i in range(q)]) * np.max(t)
        lo = np.minimum(0.3 * t, 0.5 * f)
        lo = np.array([max(lo[i:]) for i in range(q)]) if q > 1 else lo
        lo = np.minimum(lo, 0.9 * t)
        return lo, np.maximum(f, 1.5 * t)
    if kind in ("lower-only", "upper-only", "none"):
        return (0.25 * t if kind == "lower-only" else None), (3.0 * t if kind == "upper-only" else None)
    raise ValueError(kind)


def starts(lb, ub, tstar, box, mode):
    q = len(tstar)
    lo = np.asarray(lb, float) if lb is not None else 0.5 * np.asarray(tstar)
    hi = np.asarray(ub, float) if ub is not None else 1.6 * np.asarray(tstar)
    out = []
    fr = (0.15, 0.5, 0.85) if mode == "lattice" else (0.3, 0.7)
    for f in itertools.product(fr, repeat=q):
        out.append(("lattice" + str(f), lo + np.array(f) * (hi - lo)))
    if all(lo <= tstar) and all(tstar <= hi):
        out.append(("truth", np.asarray(tstar, float)))
    if lb is not None:
        x = lo + 0.5 * (hi - lo)
        x[0] = lo[0]
        out.append(("on-lower-face", x))
    if ub is not None:
        x = lo + 0.4 * (hi - lo)
        x[-1] = hi[-1]
        out.append(("on-upper-face", x))
    return out


def job(args):
    name, cfgs, seed = args
    out = {"viol": [], "runs": 0, "keys": [], "moved": 0, "truth": 0, "unsorted_bounds": 0, "active_bound": 0, "timeouts": 0, "skipped_nonpositive": 0, "undefined_cost": 0, "refits_judged": 0, "negative_start_cost": 0}
    c = detmodels.CATALOGUE[name]
    d = c["d"]
    states, params = d["states"], d["params"]
    for cfg in cfgs:
        (kind, cols, gk, tp, boxkind, sname, container, wkind, skind, refits) = cfg
        theta_gen, x0 = c["theta"][gk], c["x0"][gk]
        t0 = 0.0
        y = observations(name, d, theta_gen, x0, t0, TIMES, cols, "Square")       # noise free
        noise_free = kind in ("Square", "Normal", "Gamma")
        if kind in ("Poisson", "NegBinom"):
            y = np.round(3 + 4 * np.abs(y))
        if kind in ("Gamma", "Poisson", "NegBinom") and np.min(observations(name, d, theta_gen, x0, t0, TIMES, cols, "Square")) <= 0.05:
            out["skipped_nonpositive"] += 1       # a likelihood for positive data on a model whose states go negative (FitzHugh)
            continue
        n, p = y.shape
        w = None if wkind == "none" else [0.5 + 0.75 * j for j in range(p)]
        yin = y[:, 0].copy() if p == 1 else y.copy()
        win = w[0] if (w is not None and p == 1) else w
        tnames = list(params) if tp is None else list(tp)
        pidx = [params.index(q) for q in tnames]
        tstar = [theta_gen[i] for i in pidx]
        q = len(tnames)
        lb, ub = make_box(boxkind, tstar, q)
        st = dict(starts(lb, ub, tstar, boxkind, "lattice" if q <= 2 else "coarse"))
        if sname not in st:
            continue
        start = st[sname]
        case = {"cfg": list(cfg), "model": name, "loss": kind, "state_name": cols, "generating_theta": theta_gen, "x0": x0, "target_param": tp, "box": boxkind,
                "lb": None if lb is None else list(lb), "ub": None if ub is None else list(ub), "start": list(start), "start_kind": sname,
                "container": container, "weights": wkind, "spread": skind, "refits": refits}
        spread = {"default": None, "small": 0.1 if kind == "Normal" else 0.7}[skind] if kind in lossref.SPREAD_KW else None
        sig = {"loss": kind, "box": boxkind, "start": sname.split("(")[0], "target_param": None if tp is None else (
            "model-order" if tp == [z for z in params if z in tp] else "permuted"), "nparam": q}
        conv = {"list": list, "array": lambda a: np.array(a, float), "tuple": tuple}[container]
        signal.signal(signal.SIGPROF, _alarm)            # processor time, not wall time
        signal.setitimer(signal.ITIMER_PROF, FIT_TIMEOUT)
        try:
            m, _ = build.build(d)
            m.parameters = list(theta_gen)
            obj = lossref.make_loss(kind, list(start), m, list(x0), t0, TIMES, yin, cols if p > 1 else cols[0], state_weight=win, target_param=tp, spread=spread)
            kw = {}
            if lb is not None:
                kw["lb"] = conv(lb)
            if ub is not None:
                kw["ub"] = conv(ub)
            if container == "tuple":
                xhat, info = obj.fit(conv(start), full_output=True, **kw)
            else:
                xhat = obj.fit(conv(start), **kw)
            xhat = np.asarray(xhat, float)
            # fit called again from the estimate it returned, on the same object (a non-initial state of the optimiser's
            # world: the start is now on active bounds and at a point where the line search has nothing left to gain)
            chain = [xhat]
            for _r in range(refits):
                chain.append(np.asarray(obj.fit(conv(chain[-1]), **kw), float))
            signal.setitimer(signal.ITIMER_PROF, 0)
        except _Timeout:
            out["timeouts"] += 1
            continue
        except Exception as e:
            signal.setitimer(signal.ITIMER_PROF, 0)
            out["viol"].append((dict(sig, what="raised"), dict(case, error="%s: %s" % (type(e).__name__, str(e)[:300]))))
            continue
        out["runs"] += 1

        def refcost(th):
            full = list(theta_gen)
            for i, v in zip(pidx, th):
                full[i] = float(v)
            sol = detmodels.reference_solution(name, full, x0, t0, TIMES, d=d)
            yhat = sol[:, [states.index(cc) for cc in cols]]
            if kind != "Square" and kind != "Normal" and np.min(yhat) <= 0:
                return float("nan")
            wf = None if w is None else np.broadcast_to(np.asarray(w, float), (n, p))
            return lossref.loss_value(kind, y, yhat, wf if kind in ("Square", "Normal") else None, spread)

        if xhat.shape != (q,) or not np.all(np.isfinite(xhat)):
            out["viol"].append((dict(sig, what="shape-or-nonfinite"), dict(case, xhat=xhat.tolist())))
            continue
        inside = (lb is None or np.all(xhat >= np.asarray(lb))) and (ub is None or np.all(xhat <= np.asarray(ub)))
        if not inside:
            out["viol"].append((dict(sig, what="outside-box"), dict(case, xhat=xhat.tolist())))
            continue
        c0, c1 = refcost(start), refcost(xhat)
        if not (np.isfinite(c0) and np.isfinite(c1)):
            out["undefined_cost"] += 1          # the reference prediction is non-positive somewhere: the loss is undefined there
            continue
        if not (c1 <= c0 + 1e-6 * (1 + abs(c0))):
            out["viol"].append((dict(sig, what="worse-than-start"), dict(case, xhat=xhat.tolist(), cost_start=c0, cost_returned=c1)))
            continue
        if sname == "truth" and noise_free:
            out["truth"] += 1
            if not np.all(np.abs(xhat - np.asarray(tstar)) <= 1e-6 * (1 + np.abs(tstar))):
                out["viol"].append((dict(sig, what="left-the-generating-parameters"), dict(case, xhat=xhat.tolist())))
                continue
        bad = False
        for r_, (a_, b_) in enumerate(zip(chain[:-1], chain[1:])):
            ins = b_.shape == (q,) and np.all(np.isfinite(b_)) and (lb is None or np.all(b_ >= np.asarray(lb))) and (ub is None or np.all(b_ <= np.asarray(ub)))
            ca, cb = refcost(a_), (refcost(b_) if b_.shape == (q,) and np.all(np.isfinite(b_)) else float("nan"))
            if not ins:
                out["viol"].append((dict(sig, what="outside-box", refit=r_ + 1), dict(case, chain=[c_.tolist() for c_ in chain])))
                bad = True
                break
            if np.isfinite(ca) and np.isfinite(cb) and not (cb <= ca + 1e-6 * (1 + abs(ca))):
                out["viol"].append((dict(sig, what="worse-than-start", refit=r_ + 1), dict(case, chain=[c_.tolist() for c_ in chain], cost_start=ca, cost_returned=cb)))
                bad = True
                break
            out["refits_judged"] += 1
        if bad:
            continue
        if c0 < 0:
            out["negative_start_cost"] += 1
        moved = float(np.max(np.abs(xhat - start))) > 1e-3
        out["moved"] += moved
        if lb is not None and ub is not None and (list(lb) != sorted(lb) or list(ub) != sorted(ub)):
            out["unsorted_bounds"] += 1
        if (lb is not None and np.any(xhat == np.asarray(lb))) or (ub is not None and np.any(xhat == np.asarray(ub))):
            out["active_bound"] += 1
        if moved or sname == "truth":
            out["keys"].append((name, kind, tuple(cols), gk, None if tp is None else tuple(tp), boxkind, sname))
    return out


def main(argv=None):
    run = report.Run("C18", "exploration")
    env.load_pygom()
    quick = run.tier == "quick"
    models = ["SIR_norm", "Lotka_Volterra", "Logistic"] if quick else ["SIR_norm", "SIS", "Lotka_Volterra", "FitzHugh", "Logistic", "Chain3", "Asym23", "SEIR"]
    jobs = []
    total = 0
    for nme in models:
        d = detmodels.CATALOGUE[nme]["d"]
        states, params = d["states"], d["params"]
        sel = [[states[-1]], list(reversed(states[:2]))] if len(states) > 1 else [[states[0]]]
        tps = [None, list(reversed(params))]
        if len(params) > 2:
            tps.append([params[2], params[0]])
        if len(params) == 2:
            tps.append([params[1]])
        cfgs = []
        for kind in lossref.LOSSES:
            for cols, gk, tp in itertools.product(sel, (0, 1), tps):
                q = len(params) if tp is None else len(tp)
                snames = ["truth", "on-lower-face", "on-upper-face"] + ["lattice" + str(f) for f in itertools.product(
                    (0.15, 0.5, 0.85) if q <= 2 else (0.3, 0.7), repeat=q)]
                for boxkind in ("wide", "tight-excludes-truth", "tight-below-truth", "descending", "lower-only", "upper-only", "none"):
                    for sname in snames:
                        if boxkind in ("lower-only", "upper-only", "none") and (sname != "truth" or kind not in ("Square", "Normal", "Gamma")):
                            # a search that is not bounded on both sides may leave the region where the model is defined
                            # (negative rates, blow-up); it is exercised only where the start is the optimum
                            continue
                        k = len(cfgs)
                        container = ("list", "array", "tuple")[k % 3]
                        wkind = "per-state" if (kind in ("Square", "Normal") and k % 4 == 1) else "none"
                        skind = "small" if (kind in lossref.SPREAD_KW and k % 3 == 2) else "default"
                        refits = 2 if (k % 5 == 0 and boxkind not in ("lower-only", "upper-only", "none")) else 0
                        cfgs.append((kind, cols, gk, tp, boxkind, sname, container, wkind, skind, refits))
        if quick:
            cfgs = cfgs[run.seed % 6::6]
        total += len(cfgs)
        chunk = 6
        for i in range(0, len(cfgs), chunk):
            jobs.append((nme, cfgs[i:i + chunk], run.seed))
    res = pool.pmap(job, jobs, chunksize=1)
    runs = sum(r["runs"] for r in res)
    keys = set()
    for r in res:
        keys.update(r["keys"])
        for sig, case in r["viol"]:
            run.violation(sig, case)
    for k in ("moved", "truth", "unsorted_bounds", "active_bound", "timeouts", "skipped_nonpositive", "undefined_cost", "refits_judged", "negative_start_cost"):
        run.count("fits_" + k, sum(r[k] for r in res))
    run.sample({"model": jobs[0][0], "config": list(map(str, jobs[0][1][0]))})
    run.sample({"model": jobs[-1][0], "config": list(map(str, jobs[-1][1][-1]))})
    run.cov.update({
        "evaluations": runs, "distinct_nontrivial": len(keys),
        "rule": "models %s x 2 generating parameter sets x 5 loss classes x observed-state selections (last state; first two reversed) x target_param "
                "{all, all reversed, a subset (out of model order where possible)} x boxes {wide, tight excluding the truth above/below, bounds "
                "decreasing along the vector, lower only, upper only, none} x starts {3^q lattice inside the box, the generating parameters, on a "
                "lower face, on an upper face} x bound containers {list, ndarray, tuple+full_output} x spread {default, small: Normal sigma 0.1 (negative costs), Gamma shape 0.7, "
                "NegBinom k 0.7}%s: every combination calls the real fit; every fifth configuration calls fit twice more, each time from the "
                "estimate just returned (same object), and every link of that chain is judged like a first call. "
                "returned point inside the box exactly; reference cost (independent loss formula on the DOP853 reference trajectory) at the "
                "returned point <= at the start; started at the generating parameters with noise-free data (Square, Normal, Gamma) the result is "
                "those parameters (1e-6). distinct non-trivial = distinct configurations where the optimiser moved by >1e-3 or started at the truth" % (
                    models, " (quick: every sixth configuration, selected by VERIF_SEED)" if quick else ""),
        "configurations": total,
    })
    run.assumptions += ["data for the count losses are rounded (not noise-free), so the return-to-truth clause is judged for Square, Normal and Gamma only",
                        "one-sided and absent bounds are exercised only from the generating parameters with noise-free data (a search that is not bounded on both sides may leave the model's domain: negative rates, blow-up)",
                        "a fit that does not return within %d s is counted as cut (fits_timeouts), not judged" % FIT_TIMEOUT,
                        "the linear-constraint (A, b) branch of fit is outside the property"]
    rc = run.finish(exhaustive=(not quick) and not run.counters.get("fits_timeouts"))
    pool.close()
    return rc


if __name__ == "__main__":
    sys.exit(main())
