"""C12 — equivalent ways of specifying a model give the same model."""
import itertools
import sys

import numpy as np
import sympy as sp

from mc import build, env, points, pool, ref, report


def T(o, d, mag="1"):
    return ("T", o, d, mag)


def B(d, mag="1"):
    return ("B", None, d, mag)


def D(o, mag="1"):
    return ("D", o, None, mag)


def base(states, params, events, odes=(), derived=()):
    return {"states": list(states), "state_style": "list", "limits": [None] * len(states), "params": list(params),
            "param_style": "list", "derived": list(derived), "events": [{"rate": r, "trans": list(tr)} for r, tr in events],
            "odes": list(odes)}


SETS = {
    "SIR": base("SIR", ["beta", "gamma"], [("beta*S*I", [T("S", "I")]), ("gamma*I", [T("I", "R")])]),
    "SIRBD": base("SIR", ["beta", "gamma", "mu"], [("beta*S*I", [T("S", "I")]), ("gamma*I", [T("I", "R")]), ("mu", [B("S")]),
                                                   ("mu*S", [D("S")]), ("mu*I*R", [D("I")])]),
    "MULTI": base("SIR", ["beta", "gamma"], [("beta*S", [T("S", "I", "2"), D("I")]), ("gamma*I", [T("I", "R"), B("S", "3")]),
                                              ("beta*R", [D("R", "2")])]),
    "SYMMAG": base("SIR", ["beta", "gamma", "mu"], [("beta*S*I", [T("S", "I", "gamma")]), ("mu", [B("R", "beta/2")]),
                                                    ("gamma*I/(1+R)", [T("I", "R")])]),
    "ODETERMS": base("SIR", ["beta", "gamma", "mu"], [("beta*S*I", [T("S", "I")]), ("gamma*I", [T("I", "R")])],
                     odes=[("R", "-mu*R"), ("S", "mu")]),
    "RANGE": base(["y1", "y2", "y3"], ["beta", "gamma"], [("beta*y1*y2", [T("y1", "y2")]), ("gamma*y2", [T("y2", "y3")]), ("gamma", [B("y1")])]),
    "DERIVED": base("SIR", ["beta", "gamma"], [("phi*S*I", [T("S", "I")]), ("gamma*I", [T("I", "R")]), ("phi", [B("S", "2")])],
                    derived=[("phi", "beta*gamma")]),
}


def routes_for(ev, rich=True):
    tr = ev["trans"]
    if len(tr) == 1:
        r = ["event", "event_single_unlisted", "event_member0", "bare"]
        if str(tr[0][3]) == "1":
            r.append("legacy")
            if tr[0][0] == "B":
                r.append("legacy_birth_origin")
    else:
        r = ["event"] + ["event_member%d" % k for k in range(len(tr))]
    return r if rich else [x for x in r if x in ("event", "bare", "legacy", "legacy_birth_origin", "event_member1")]


def variants(name, d, tier):
    n = len(d["events"])
    rich = n <= 3
    per = [routes_for(ev, rich) for ev in d["events"]]
    out = []
    ident = tuple(range(n))
    orders = list(itertools.permutations(range(n))) if n <= 3 else [ident, tuple(reversed(ident)), tuple(ident[1:] + ident[:1])]
    # every assignment of a route to each process, in the given and the reversed order
    for rts in itertools.product(*per):
        for order in (ident, tuple(reversed(ident))):
            out.append({"routes": rts, "order": order, "incr": ()})
    # every subset of processes added incrementally after construction (default and legacy-ish routes)
    for r in range(1, n + 1):
        for sub in itertools.combinations(range(n), r):
            for rts in (tuple(p[0] for p in per), tuple(p[-1] for p in per), tuple(p[min(3, len(p) - 1)] for p in per)):
                out.append({"routes": rts, "order": ident, "incr": sub})
    # every ordering x first/last route
    for order in orders:
        for rts in (tuple(p[0] for p in per), tuple(p[-1] for p in per)):
            out.append({"routes": rts, "order": order, "incr": ()})
    if tier == "thorough" and n <= 3:
        for rts in itertools.product(*per):
            for order in orders:
                for sub in ((), (0,), tuple(range(n))):
                    out.append({"routes": rts, "order": order, "incr": sub})
    # declaration styles
    sstyles = ["string", "comma", "commaspace", "odevar", "tuples"] + (["range"] if name == "RANGE" else [])
    pstyles = ["string", "comma", "commaspace", "odevar"]
    for ss in sstyles:
        for ps in pstyles:
            out.append({"routes": tuple(p[0] for p in per), "order": ident, "incr": (), "sstyle": ss, "pstyle": ps})
    if d["odes"]:
        for v in list(out[:40]):
            out.append(dict(v, odes_incremental=True))
    # de-duplicate
    seen, uniq = set(), []
    for v in out:
        k = repr(sorted(v.items()))
        if k not in seen:
            seen.add(k)
            uniq.append(v)
    return uniq


def explicit_ode_def(d):
    """the same right-hand side entered as explicit ODE equations only"""
    R = ref.Ref(d)
    return dict(d, events=[], odes=[(s, str(R.f[i])) for i, s in enumerate(d["states"])], derived=[])


def per_process_ode_def(d, reverse=False):
    """the same right-hand side entered as one explicit ODE entry per process and state touched (so a state touched by
    several processes has several entries, which must add up whatever their order)"""
    ent = []
    for ev in d["events"]:
        for typ, o, dst, mag in ev["trans"]:
            term = "(%s)*(%s)" % (mag, ev["rate"])
            if typ in ("T", "D"):
                ent.append((o, "-" + term))
            if typ in ("T", "B"):
                ent.append((dst, term))
    ent += [tuple(e) for e in d["odes"]]
    if reverse:
        ent.reverse()
    return dict(d, events=[], odes=ent)


def job(args):
    name, d, vs, seed = args
    out = {"name": name, "viol": [], "built": 0, "compared": 0}
    ns, npar = len(d["states"]), len(d["params"])
    pts = points.points(ns, npar, seed)[:3]
    n = len(d["events"])
    base_m, base_order = build.build(d)
    base_ode = sp.Matrix(base_m.get_ode_eqn())

    def evals(m, order):
        res = []
        inv = [order.index(e) for e in range(n)] if n else []
        for (x, t, th) in pts:
            m.parameters = list(th)
            ode = np.asarray(m.ode(x, t), float).ravel()
            jac = np.asarray(m.jacobian(x, t), float).reshape(ns, ns)
            grad = np.asarray(m.grad(x, t), float).reshape(ns, npar)
            if n:
                rates = np.asarray(m.eventRateVector(x, t), float).ravel()[inv]
                vmat = np.asarray(m.vMat(x, t), float).reshape(ns, n)[:, inv]
            else:
                rates, vmat = np.zeros(0), np.zeros((ns, 0))
            res.append((ode, jac, grad, rates, vmat))
        return res

    base_vals = evals(base_m, base_order)
    R = ref.Ref(d)
    if not all(ref.is_zero(e) for e in (ref.rename(base_ode, R) - R.f)):
        out["viol"].append({"what": "baseline-variant-differs-from-reference", "variant": "all-Event-objects"})
    for v in vs:
        dd = dict(d)
        if "sstyle" in v:
            dd["state_style"], dd["param_style"] = v["sstyle"], v["pstyle"]
        if v.get("odes_incremental"):
            dd["odes_incremental"] = True
        try:
            m, order = build.build(dd, routes=list(v["routes"]), incremental=v["incr"], order=v["order"])
            out["built"] += 1
            eq = sp.Matrix(m.get_ode_eqn())
            if eq.shape != base_ode.shape or not all(ref.is_zero(e) for e in (ref.rename(eq, R) - ref.rename(base_ode, R))):
                out["viol"].append({"what": "symbolic-ode-differs", "variant": v, "got": str(list(eq)), "want": str(list(base_ode))})
                continue
            vals = evals(m, order)
        except Exception as e:
            out["viol"].append({"what": "variant-raised", "variant": v, "error": "%s: %s" % (type(e).__name__, str(e)[:200])})
            continue
        for (a, b, pt) in zip(vals, base_vals, pts):
            out["compared"] += 1
            labels = ["ode", "jacobian", "grad", "eventRateVector", "vMat"]
            bad = [labels[i] for i in range(5) if a[i].shape != b[i].shape or not np.allclose(a[i], b[i], rtol=1e-12, atol=1e-13)]
            if bad:
                out["viol"].append({"what": "numeric-differs", "which": bad, "variant": v, "point": pt})
                break
    # growing a model one process at a time, evaluating after every step (another live model is
    # evaluated in between): each stage must equal a model built at once from the same processes
    orders = [tuple(range(n)), tuple(reversed(range(n)))] if n > 1 else [tuple(range(n))]
    for order in orders:
        for rts in (tuple(routes_for(ev)[0] for ev in d["events"]), tuple(routes_for(ev)[-1] for ev in d["events"])):
            try:
                d0 = dict(d, events=[])
                g, _ = build.build(d0)
                sofar = []
                x, t, th = pts[0]
                g.parameters = list(th)
                stage_vals = lambda mm: (np.asarray(mm.ode(x, t), float).ravel(), np.asarray(mm.jacobian(x, t), float).reshape(ns, ns),
                                         np.asarray(mm.grad(x, t), float).reshape(ns, npar))
                stage_vals(g)
                for e in order:
                    kind, obj = build.make_event_obj(env.load_pygom(), d["events"][e], rts[e])
                    {"event": g.add_event, "transition": g.add_transition, "birth_death": g.add_birth_death}[kind](obj)
                    sofar.append(e)
                    fresh, _ = build.build(dict(d, events=[d["events"][k] for k in sofar]))
                    fresh.parameters = list(th)
                    want = stage_vals(fresh)          # the other live model is evaluated first
                    got = stage_vals(g)
                    out["built"] += 1
                    out["compared"] += 1
                    if not all(np.allclose(a, b, rtol=1e-12, atol=1e-13) for a, b in zip(got, want)):
                        out["viol"].append({"what": "incrementally-grown-model-differs", "variant": {"routes": rts, "order": order, "stage": list(sofar)}})
                        break
            except Exception as e:
                out["viol"].append({"what": "grow-raised", "variant": {"routes": rts, "order": order}, "error": "%s: %s" % (type(e).__name__, str(e)[:200])})
    # explicit-ODE forms: only the ODE is compared.  One equation per state; one entry per process and state touched, given
    # to the constructor in both orders and added one by one with add_ode
    forms = [("one-equation-per-state", explicit_ode_def(d)), ("one-entry-per-process", per_process_ode_def(d)),
             ("one-entry-per-process-reversed", per_process_ode_def(d, reverse=True)),
             ("one-entry-per-process-added-incrementally", dict(per_process_ode_def(d), odes_incremental=True))]
    for fname, dd in forms:
      try:
        m, _ = build.build(dd)
        out["built"] += 1
        for (x, t, th), b in zip(pts, base_vals):
            m.parameters = list(th)
            if not np.allclose(np.asarray(m.ode(x, t), float).ravel(), b[0], rtol=1e-10, atol=1e-12):
                out["viol"].append({"what": "explicit-ode-form-differs", "form": fname, "point": [x, t, th]})
                break
            if not np.allclose(np.asarray(m.jacobian(x, t), float).reshape(ns, ns), b[1], rtol=1e-10, atol=1e-12):
                out["viol"].append({"what": "explicit-ode-form-jacobian-differs", "form": fname, "point": [x, t, th]})
                break
      except Exception as e:
        out["viol"].append({"what": "explicit-ode-form-raised", "form": fname, "error": "%s: %s" % (type(e).__name__, e)})
    return out


def main(argv=None):
    run = report.Run("C12", "model_checking")
    env.load_pygom()
    quick = run.tier == "quick"
    names = ["SIR", "MULTI", "SYMMAG", "SIRBD", "ODETERMS", "RANGE", "DERIVED"]
    jobs = []
    nv = 0
    for nme in names:
        vs = variants(nme, SETS[nme], run.tier)
        nv += len(vs)
        chunk = 60
        for i in range(0, len(vs), chunk):
            jobs.append((nme, SETS[nme], vs[i:i + chunk], run.seed))
        run.count("variants:" + nme, len(vs))
    res = pool.pmap(job, jobs, chunksize=1)
    built = sum(r["built"] for r in res)
    for r, j in zip(res, jobs):
        for v in r["viol"]:
            var = v.get("variant") if isinstance(v.get("variant"), dict) else {}
            sig = {"what": v["what"], "set": j[0], "routes": sorted(set(var.get("routes", ())))[:4] if var else None}
            run.violation(sig, {"set": j[0], "def": j[1], "violation": v})
    run.sample({"set": jobs[0][0], "variant": jobs[0][2][1]})
    run.sample({"set": jobs[-1][0], "variant": jobs[-1][2][-1]})
    run.cov.update({
        "evaluations": built, "distinct_nontrivial": nv,
        "rule": "for %d process sets (SIR, births/deaths, multi-transition events with magnitudes, symbolic magnitudes, explicit ODE "
                "terms, range-style states, derived parameter): every assignment of an API route to each process (Event object, "
                "unlisted single Transition, rate carried by member k, bare Transition in event=, legacy transition= / birth_death= "
                "with births by destination and by origin) in given and reversed order, every subset added incrementally with "
                "add_*, every ordering, every state/parameter declaration style, the explicit-ODE forms (one equation per state; one entry per process "
                "and state touched, in both orders and added one by one); each variant's "
                "get_ode_eqn must equal the all-Event variant's symbolically and ode/jacobian/grad/eventRateVector/vMat "
                "(modulo the known event permutation) numerically at 3 points. distinct = distinct variants" % len(names),
        "states": nv, "transitions": built, "traces_validated_against_impl": built,
    })
    run.assumptions += ["legacy transition=/birth_death= routes are only used with magnitude 1 (they cannot express another one)"]
    rc = run.finish(exhaustive=True)
    pool.close()
    return rc


if __name__ == "__main__":
    sys.exit(main())
