"""C17 — ABC keeps only particles inside the prior support and under the tolerance."""
import math
import sys

import numpy as np

from mc import abcenv, build, detmodels, env, pool, report, sched


def P(name, dist, *pars, log=False, scale=None):
    d = {"name": name, "dist": dist, "pars": list(pars), "logscale": log}
    if scale is not None:
        d["scale"] = scale
    return d


L = math.log10

# parameter sets: (label, model, theta, x0, observed, parameters in USER order, constraint)
# the truth sits close to one edge of a bounded prior so that a point just outside the support still has a small cost
PSETS = [
    ("chain-2unif", "Chain3", [0.9, 0.4], None, ["I", "R"], [P("beta", "unif", 0.0, 0.93), P("gamma", "unif", 0.0, 3.0)], None),
    ("chain-gamma-first", "Chain3", [0.9, 0.03], None, ["I", "R"], [P("gamma", "gamma", 1.0, 20.0, scale=0.02), P("beta", "unif", 0.2, 2.0)], None),
    ("chain-gamma2-norm", "Chain3", [0.9, 0.03], None, ["R", "I"], [P("gamma", "gamma", 2.0, 40.0, scale=0.02), P("beta", "norm", 0.8, 0.3)], None),
    ("chain-log-mixed", "Chain3", [0.9, 0.4], None, ["I", "R"], [P("beta", "unif", -1.0, L(0.93), log=True), P("gamma", "norm", 0.5, 0.3)], None),
    ("chain-log-both", "Chain3", [0.9, 0.4], [300.0, 100.0, 50.0], ["I", "R"], [P("gamma", "unif", L(0.38), 0.5, log=True), P("beta", "unif", -1.0, 0.5, log=True)], None),
    ("chain-state-first", "Chain3", [0.9, 0.4], None, ["I", "R"],
     [P("I", "unif", 0.0, 1.04), P("beta", "unif", -1.0, 0.5, log=True), P("gamma", "unif", 0.0, 1.0)], None),
    ("chain-state-constraint", "Chain3", [0.9, 0.4], None, ["I", "R"],
     [P("gamma", "unif", 0.0, 1.0), P("I", "unif", 0.0, 1.04)], (4.5, "S")),
    ("chain-one-param", "Chain3", [0.9, 0.4], None, ["I", "R"], [P("beta", "unif", 0.0, 0.93)], None),
    ("chain-one-param-log", "Chain3", [0.9, 0.4], None, ["R"], [P("gamma", "unif", -1.5, L(0.41), log=True)], None),
    ("logistic-2", "Logistic", [0.9, 5.0], None, ["S"], [P("kappa", "unif", 1.0, 5.1), P("beta", "gamma", 3.0, 3.0)], None),
    ("logistic-state", "Logistic", [0.9, 5.0], None, ["S"], [P("S", "unif", 0.1, 0.52), P("beta", "unif", 0.0, 2.0)], None),
    ("drift-poisson", "Drift", [60.0, 24.0], [200.0], ["S"], [P("beta", "unif", 0.0, 180.0), P("gamma", "unif", 0.0, 300.0)], None),
    ("sir-2unif", "SIR_norm", [1.8, 0.6], None, ["I", "R"], [P("beta", "unif", 0.0, 1.85), P("gamma", "unif", 0.0, 3.0)], None),
]
LOSS_OF = {"chain-2unif": ("Square", None), "chain-gamma-first": ("Square", None), "chain-gamma2-norm": ("Normal", 0.7),
           "chain-log-mixed": ("Square", None), "chain-log-both": ("Poisson", None), "chain-state-first": ("Square", None),
           "chain-state-constraint": ("Normal", 1.0), "chain-one-param": ("Square", None), "chain-one-param-log": ("Square", None),
           "logistic-2": ("Square", None), "logistic-state": ("Normal", 0.5), "sir-2unif": ("Square", None), "drift-poisson": ("Poisson", None)}
NAN_POINT = {"drift-poisson": [60.0, 290.0]}     # inside the prior support; the prediction becomes negative, the Poisson cost nan


def n_for(P_, kind):
    """population sizes that keep the proposal covariance non-singular for P inferred quantities"""
    return {1: 5, 2: 7, 3: 9}[P_] if kind == "exactq" else {1: 4, 2: 8, 3: 10}[P_]


def schedules(P_):
    """(label, calls).  tol tokens: inf | T0 | ('list', k) = T0*[1, .5, .25,...] | next | ('below-next', f) = between the smallest cost and next_tol"""
    ne, ni = n_for(P_, "exactq"), n_for(P_, "interp")
    return [
        ("rejection", ne, [dict(kind="get", G=1, tol="T0", q=None, M=None)]),
        ("rejection-inf", ne, [dict(kind="get", G=1, tol="inf", q=None, M=None)]),
        ("smc-list", ne, [dict(kind="get", G=3, tol=("list", 3), q=None, M=None)]),
        ("smc-q-exact", ne, [dict(kind="get", G=3, tol="inf", q=0.5, M=None)]),
        ("smc-q-interp", ni, [dict(kind="get", G=3, tol="T0", q=0.5, M=None)]),
        ("smc-q75", ne, [dict(kind="get", G=2, tol="inf", q=0.75, M=None)]),
        ("mnn-all", ne, [dict(kind="get", G=2, tol="inf", q=0.5, M=ne - 1)]),
        ("mnn-some", ne, [dict(kind="get", G=2, tol=("list", 2), q=None, M=ne - 2)]),
        ("get-continue-q", ne, [dict(kind="get", G=2, tol="inf", q=0.5, M=None), dict(kind="continue", G=2, tol="next", q=0.5, M=None)]),
        # a continued quantile run asked for a tolerance strictly below the one the previous run proposes (next_tol)
        ("get-continue-q-below", ne, [dict(kind="get", G=2, tol="inf", q=0.5, M=None), dict(kind="continue", G=2, tol=("below-next", 0.5), q=0.5, M=None)]),
        ("get-continue-list", ne, [dict(kind="get", G=1, tol="T0", q=None, M=None), dict(kind="continue", G=2, tol=("below-list", 2), q=None, M=None)]),
        ("get-continue-continue", ne, [dict(kind="get", G=1, tol="inf", q=0.5, M=None), dict(kind="continue", G=1, tol="next", q=0.5, M=None),
                                       dict(kind="continue", G=2, tol="next", q=0.5, M=ne - 1)]),
    ]


def make_cfg(pset, schedule):
    label, model, theta, x0, observed, pars, con = pset
    slabel, N, calls = schedule
    loss, sigma = LOSS_OF[label]
    return {"name": label + "/" + slabel, "model": model, "theta": theta, "x0": x0, "observed": observed, "parameters": pars, "constraint": con,
            "loss": loss, "sigma": sigma, "N": N, "calls": calls, "nan_point": NAN_POINT.get(label)}


_PB = {}


def problem(cfg):
    key = cfg["name"].split("/")[0]
    if key not in _PB:
        _PB[key] = abcenv.Problem(cfg)
    return _PB[key]


def resolve_tol(tok, pb, abc, T0):
    if tok == "inf":
        return np.inf
    if tok == "T0":
        return T0
    if tok == "next":
        return float(abc.next_tol)
    if tok[0] == "list":
        return [pb.cmin() + (T0 - pb.cmin()) * 0.5 ** i for i in range(tok[1])]
    if tok[0] == "below-next":
        return pb.cmin() + (float(abc.next_tol) - pb.cmin()) * tok[1]
    if tok[0] == "below-list":
        return [pb.cmin() + (float(abc.final_tol) - pb.cmin()) * 0.5 ** (i + 1) for i in range(tok[1])]
    raise ValueError(tok)


def execute(cfg, prefix):
    """one execution of the real ABC calls under the environment; returns the scheduler with .verdict"""
    import logging
    logging.disable(logging.WARNING)          # "N is low this may cause errors" on every call
    import pygom.approximate_bayesian_computation.approximate_bayesian_computation as abcmod
    pb = problem(cfg)
    s = sched.Sched(prefix, horizon=900)
    s.verdict = ("ok", None, None)
    e = abcenv.Env(pb, s)
    s.envx = e
    rungs = pb.rungs()
    T0 = pb.cmin() + 1.3 * (max(c for _, _, c in rungs[:3]) - pb.cmin())
    try:
        m, _ = build.build(pb.d)
        m.parameters = list(pb.theta_true)
        with e.owned(abcmod):
            pars = [abcmod.Parameter(p["name"], p["dist"], *p["pars"], logscale=p["logscale"]) for p in pb.pars]
            y = pb.y[:, 0].copy() if pb.y.shape[1] == 1 else pb.y.copy()
            obj = abcmod.create_loss(pb.kind + "Loss", pars, m, list(pb.x0_true), pb.t0, pb.times, y,
                                     pb.cols if len(pb.cols) > 1 else pb.cols[0], sigma=cfg.get("sigma"))
            abc = abcmod.ABC(obj, pars, constraint=cfg.get("constraint"))
            e.abc = abc
            for ci, call in enumerate(cfg["calls"]):
                tol = resolve_tol(call["tol"], pb, abc, T0)
                e.begin_call(cfg["N"], tol, call["G"], call["q"], rerun=(call["kind"] == "continue"))
                fn = abc.get_posterior_sample if call["kind"] == "get" else abc.continue_posterior_sample
                fn(N=cfg["N"], tol=tol, G=call["G"], q=call["q"], M=call["M"])
                e.verify_call(abc, "%d:%s" % (ci, call["kind"]))
        if getattr(s, "global_state_touched", False):
            s.verdict = ("violation", "harness:global-generator-consumed", {})
    except abcenv.Cut as x:
        s.verdict = ("cut", str(x), None)
    except abcenv.Mismatch as x:
        s.verdict = ("violation", x.what, x.detail)
    except sched.HorizonExceeded as x:
        s.verdict = ("violation", "does-not-terminate", {"why": str(x)})
    except Exception as x:
        s.verdict = ("violation", "raised", {"error": "%s: %s" % (type(x).__name__, str(x)[:300])})
    return s


def explore_cfg(args):
    cfg, bound, max_exec, first = args
    env.load_pygom()
    st = {"cfg": cfg["name"], "executions": 0, "cut": {}, "viol": [], "n_viol": 0, "outcomes": set(), "proposals": 0, "classes": {},
          "calls": 0, "capped": False, "sample": None}

    def run(prefix):
        s = execute(cfg, prefix)
        st["executions"] += 1
        e = s.envx
        st["proposals"] += len(e.log)
        for k, v in e.counts.items():
            st["classes"][k] = st["classes"].get(k, 0) + v
        kind, what, detail = s.verdict
        if kind == "cut":
            st["cut"][what] = st["cut"].get(what, 0) + 1
        elif kind == "violation":
            st["n_viol"] += 1
            if len(st["viol"]) < 4:
                st["viol"].append({"what": what, "choices": list(s.choices), "detail": detail, "answers": [list(map(str, a)) for a in s.log[-6:]]})
        else:
            st["calls"] += len(cfg["calls"])
            st["outcomes"].add(tuple(a[0][0] + ("+" if a[4] else "-") for a in s.log))
            if st["sample"] is None or (sum(1 for c in s.choices if c) > sum(1 for c in st["sample"]["choices"] if c)):
                st["sample"] = {"config": cfg["name"], "choices": list(s.choices), "answers": [[a[0], a[1], a[2], a[3], a[4]] for a in s.log[:8]],
                                "tolerances_per_call": e.tolerances_all}
        return s

    if first is None:
        n, capped = sched.explore(run, bound, lambda s: None, max_exec=max_exec)
    else:
        # sub-tree below one first-level deviation (work splitting): replay `first`, explore deviations after it
        n, capped = explore_from(run, first, bound, max_exec)
    st["capped"] = capped
    st["n_outcomes"] = len(st["outcomes"])
    st["outcomes"] = None
    return st


def explore_from(run, first, bound, max_exec):
    stack = [list(first)]
    n = 0
    while stack:
        prefix = stack.pop()
        x = run(prefix)
        n += 1
        if max_exec is not None and n >= max_exec and stack:
            return n, True
        ch, no = x.choices, x.nopts
        if ch[:len(prefix)] != prefix:
            raise RuntimeError("replay divergence: prefix not reproduced")
        if sum(1 for c in prefix if c) + 1 > bound:
            continue
        for i in range(len(prefix), len(ch)):
            for alt in range(1, no[i]):
                stack.append(ch[:i] + [alt])
    return n, False


def first_level(cfg):
    """the default execution and all its 1-deviation prefixes (used to split a bound-2 exploration over the pool)"""
    s = execute(cfg, [])
    out = []
    for i in range(len(s.choices)):
        for alt in range(1, s.nopts[i]):
            out.append(s.choices[:i] + [alt])
    return out


def replay(path):
    import json
    env.load_pygom()
    j = json.load(open(path))
    case = j["case"]
    cfg = case["cfg"]
    cfg["parameters"] = [dict(p) for p in cfg["parameters"]]
    cfg["constraint"] = tuple(cfg["constraint"]) if cfg.get("constraint") else None
    for c in cfg["calls"]:
        if isinstance(c["tol"], list):
            c["tol"] = tuple(c["tol"])
    s = execute(cfg, case["choices"])
    print("replay of", cfg["name"], "choices", case["choices"])
    for a in s.log:
        print("   answer", a)
    print("verdict:", s.verdict)
    if s.verdict[0] == "violation":
        print("VIOLATION property=C17 replay=%s" % path)
        return 1
    return 0


def main(argv=None):
    argv = sys.argv[1:] if argv is None else argv
    if argv and argv[0] == "--replay":
        return replay(argv[1])
    run = report.Run("C17", "model_checking")
    env.load_pygom()
    quick = run.tier == "quick"
    cfgs = []
    for pset in PSETS:
        if quick and pset[0] in ("sir-2unif",):
            continue
        np_ = len(pset[5])
        for sc in schedules(np_):
            cfgs.append(make_cfg(pset, sc))
    jobs = []
    deep = set()
    if quick:
        # bound 1 everywhere; bound 2 on a VERIF_SEED-selected pair of small configurations
        small = [c for c in cfgs if len(c["parameters"]) == 1]
        for k in range(2):
            deep.add(small[(run.seed * 2 + k) % len(small)]["name"])
    else:
        deep = {c["name"] for c in cfgs if c["model"] != "SIR_norm"}
    for c in cfgs:
        if c["name"] in deep:
            jobs.append((c, 2, None, None))
        else:
            jobs.append((c, 1, None, None))
    # split bound-2 explorations by first deviation
    split = []
    for c, b, mx, first in jobs:
        if b == 2:
            split.append((c, 0, None, None))
            for f in pool.pmap(first_level, [c])[0]:
                split.append((c, 2, None, f))
        else:
            split.append((c, b, mx, first))
    res = pool.pmap(explore_cfg, split, chunksize=1)
    ex = sum(r["executions"] for r in res)
    props = sum(r["proposals"] for r in res)
    cuts = {}
    classes = {}
    outcomes = 0
    for r, j in zip(res, split):
        outcomes += r["n_outcomes"]
        for k, v in r["cut"].items():
            cuts[k] = cuts.get(k, 0) + v
        for k, v in r["classes"].items():
            classes[k] = classes.get(k, 0) + v
        for v in r["viol"]:
            run.violation({"config": r["cfg"].split("/")[0], "schedule": r["cfg"].split("/")[1], "what": v["what"]},
                          {"cfg": j[0], "choices": v["choices"], "detail": v["detail"], "last_answers": v["answers"]})
        if r["sample"] is not None:
            run.sample(r["sample"], cap=3)
    for k, v in classes.items():
        run.count("answers_" + k, v)
    for k, v in cuts.items():
        run.count("cut: " + k, v)
    judged = ex - sum(cuts.values())
    run.cov.update({
        "evaluations": ex, "distinct_nontrivial": outcomes,
        "states": props, "transitions": props, "traces_validated_against_impl": judged,
        "rule": "%d configurations = parameter sets %s x schedules %s. The environment owns every prior draw, particle choice and kernel draw of the "
                "real ABC.get_posterior_sample / continue_posterior_sample and answers each proposal by class (ACCEPT / REJECT_TOL / REJECT_PRIOR / "
                "DUPLICATE incl. the particle whose distance IS the quantile tolerance / REJECT_NAN, a supported point where the cost is undefined; particle index from {0, N-1}); all executions with at most "
                "%s non-default answers are enumerated. states/transitions = proposals answered (each one a step of the reference ABC run, "
                "compared with the library's particle table after the step); traces validated = executions whose complete reference trace "
                "(accepted proposals, distances, tolerance schedule, final tolerance) was matched against the library's state after every call. "
                "distinct non-trivial = distinct accept/reject class sequences over judged executions" % (
                    len(cfgs), [p[0] for p in PSETS if not (quick and p[0] == "sir-2unif")], [s[0] for s in schedules(2)],
                    "1 (2 on %s)" % sorted(deep) if quick else "2 (1 on the SIR configurations)"),
        "configurations": len(cfgs), "deviation_bound_completed": 1 if quick else 2, "bound2_configurations": len(deep),
        "executions_cut": sum(cuts.values()),
    })
    run.assumptions += ["reference cost = independent loss formula on a closed-form (Chain3, Logistic) or DOP853 (SIR) trajectory, particle decoded by "
                        "parameter NAME (10**value for log-scale parameters, states into x0, population constraint applied)",
                        "answers keep a 10% margin between reference cost and tolerance except the exact duplicate of the quantile particle; an "
                        "execution whose reference cost comes within 1e-7 of the tolerance otherwise is cut, as are executions in which the library "
                        "itself computes a singular proposal covariance (the library warns that small N can do this)",
                        "kernel answers lie within six standard deviations of the kernel the library asked for, so the weight denominator cannot underflow"]
    rc = run.finish(exhaustive=not any(r["capped"] for r in res))
    pool.close()
    return rc


if __name__ == "__main__":
    sys.exit(main())
