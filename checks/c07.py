"""C07 — the gradient handed to optimisers is the derivative of cost."""
import itertools
import sys

import numpy as np

from mc import build, detmodels, env, lossref, pool, report, varref
from checks.c06 import observations, ordered_subsets

_VR = {}


def job(args):
    name, cfgs, seed = args
    out = {"name": name, "viol": [], "runs": 0, "nontrivial": 0}
    c = detmodels.CATALOGUE[name]
    d = c["d"]
    states, params = d["states"], d["params"]
    if name not in _VR:
        _VR[name] = varref.VarRef(d)
    vr = _VR[name]
    for cfg in cfgs:
        (kind, cols, thk, tgrid, t0, wkind, skind, tp, ts, entry, meth, fo) = cfg
        theta_gen, x0 = c["theta"][0], c["x0"][0]
        theta = [c["theta"][1], [v * 1.13 for v in theta_gen]][thk]
        times = {"uniform": np.linspace(t0 + 0.5, t0 + 3.0, 6), "int": np.arange(1, 5)}[tgrid]
        y = observations(name, d, theta_gen, x0, t0, times, cols, kind)
        n, p = y.shape
        w = {"none": None, "per-state": [0.5 + 0.75 * j for j in range(p)], "per-obs": 0.4 + 0.1 * (np.arange(n * p).reshape(n, p) % 7)}[wkind]
        spread = None
        if kind in lossref.SPREAD_KW:
            spread = {"default": None, "scalar": 3.7, "per-state": [0.8 + 1.1 * j for j in range(p)]}[skind]
        yin = y[:, 0].copy() if p == 1 else y.copy()
        win = w
        if p == 1 and w is not None:
            win = w[0] if wkind == "per-state" else np.asarray(w).ravel()
        sin = spread
        if p == 1 and spread is not None and not np.isscalar(spread):
            sin = spread[0]
        case = {"cfg": list(cfg), "model": name, "loss": kind, "state_name": cols, "theta": theta, "grid": tgrid, "t0": t0, "weights": wkind, "spread": skind,
                "target_param": tp, "target_state": ts, "entry": entry, "method": meth, "full_output": fo}
        sig = {"loss": kind, "entry": entry, "nstates": p, "order": "model" if cols == [s for s in states if s in cols] else "permuted",
               "weights": wkind, "target_param": None if tp is None else ("model-order" if tp == [q for q in params if q in tp] else "permuted"),
               "target_state": None if ts is None else ("model-order" if ts == [q for q in states if q in ts] else "permuted"),
               "grid": tgrid, "single_weight_vector": bool(p == 1 and wkind == "per-obs")}
        iv = entry == "sensitivityIV"
        x0_used = [v * 1.07 + 0.01 for v in x0] if iv else list(x0)
        if iv and ts is not None:
            # only the targeted initial values are supplied; the others keep the constructor's
            x0_used = [x0_used[i] if states[i] in ts else x0[i] for i in range(len(states))]
        try:
            m, _ = build.build(d)
            m.parameters = list(theta_gen)
            th_in = list(theta) if tp is None else [theta[params.index(q)] for q in tp]
            full_theta = list(theta) if tp is None else [theta[params.index(q)] if q in tp else theta_gen[params.index(q)] for q in params]
            obj = lossref.make_loss(kind, th_in, m, list(x0), t0, times, yin, cols if p > 1 else cols[0],
                                    state_weight=win, spread=sin, target_param=tp, target_state=ts if iv else None)
            kw = {"full_output": fo}
            if entry != "gradient":
                kw["method"] = meth
            if iv:
                xin = list(x0_used) if ts is None else [x0_used[states.index(s)] for s in ts]
                r = obj.sensitivityIV(th_in + xin, **kw)
            elif entry == "sensitivity":
                r = obj.sensitivity(th_in, **kw)
            else:
                r = obj.gradient(th_in, full_output=fo)
            got = np.asarray(r[0] if fo else r, float).ravel()
        except Exception as e:
            out["viol"].append((dict(sig, what="raised"), dict(case, error="%s: %s" % (type(e).__name__, str(e)[:300]))))
            continue
        out["runs"] += 1
        X, S, Z = vr.solve(full_theta, x0_used, t0, times)
        idx = [states.index(cc) for cc in cols]
        yhat = X[:, idx]
        if kind in ("Poisson", "Gamma", "NegBinom") and np.min(yhat) <= 0:
            continue
        wfull = None if w is None else np.broadcast_to(np.asarray(w, float), (n, p))
        sfull = None if spread is None else np.broadcast_to(np.asarray(spread, float), (n, p))
        dL = lossref.dloss_dyhat(kind, y, yhat, wfull if kind in ("Square", "Normal") else None, sfull)
        pidx = list(range(len(params))) if tp is None else [params.index(q) for q in tp]
        want = [float(np.sum(dL * S[:, idx, k])) for k in pidx]
        if iv:
            sidx = list(range(len(states))) if ts is None else [states.index(s) for s in ts]
            want += [float(np.sum(dL * Z[:, idx, k])) for k in sidx]
        want = np.array(want)
        scale = np.max(np.abs(want)) + 1e-12
        if got.shape != want.shape or not np.all(np.abs(got - want) <= 1e-5 * (scale + np.abs(want))):
            out["viol"].append((dict(sig, what="value"), dict(case, got=got.tolist(), want=want.tolist())))
            continue
        if len(want) == 1 or np.min(np.abs(np.diff(np.sort(want)))) > 0.01 * scale:
            out["nontrivial"] += 1
    return out


NEAR = 9e-6


def seq_job(args):
    """a sequence of gradient evaluations on ONE square-loss object at the generating parameters and at points a relative
    9e-6 away (where the gradient is proportional to the displacement, so a value left over from the previous call is off
    by 50-100%), then elsewhere and back"""
    name, cols, seed = args
    out = {"name": name, "viol": [], "runs": 0, "nontrivial": 0}
    c = detmodels.CATALOGUE[name]
    d = c["d"]
    states, params = d["states"], d["params"]
    if name not in _VR:
        _VR[name] = varref.VarRef(d)
    vr = _VR[name]
    theta_gen, x0 = c["theta"][0], c["x0"][0]
    t0 = 0.0
    times = np.linspace(0.5, 3.0, 6)
    y = observations(name, d, theta_gen, x0, t0, times, cols, "Square")
    n, p = y.shape
    yin = y[:, 0].copy() if p == 1 else y.copy()
    idx = [states.index(cc) for cc in cols]
    near = lambda k: [v * (1 + NEAR) ** k for v in theta_gen]
    seq = [("sensitivity", theta_gen), ("sensitivity", near(1)), ("gradient", near(2)), ("sensitivity", near(3)), ("sensitivity", list(c["theta"][1])),
           ("gradient", near(1)), ("sensitivity", theta_gen), ("sensitivity", near(-2))]
    sig = {"loss": "Square", "entry": "sequence", "nstates": p}
    try:
        m, _ = build.build(d)
        m.parameters = list(theta_gen)
        obj = lossref.make_loss("Square", list(theta_gen), m, list(x0), t0, times, yin, cols if p > 1 else cols[0])
    except Exception as e:
        out["viol"].append((dict(sig, what="raised"), {"model": name, "state_name": cols, "error": "%s: %s" % (type(e).__name__, e)}))
        return out
    wants = []
    for k, (entry, th) in enumerate(seq):
        X, S, Z = vr.solve(th, x0, t0, times)
        dL = lossref.dloss_dyhat("Square", y, X[:, idx], None, None)
        wants.append(np.array([float(np.sum(dL * S[:, idx, j])) for j in range(len(params))]))
    big = max(float(np.max(np.abs(w))) for w in wants[1:4])
    for k, (entry, th) in enumerate(seq):
        try:
            got = np.asarray(obj.sensitivity(list(th)) if entry == "sensitivity" else obj.gradient(list(th)), float).ravel()
        except Exception as e:
            out["viol"].append((dict(sig, what="raised", step=entry), {"model": name, "state_name": cols, "step": k, "error": "%s: %s" % (type(e).__name__, e)}))
            break
        out["runs"] += 1
        want = wants[k]
        scale = max(float(np.max(np.abs(want))), 0.2 * big)
        if got.shape != want.shape or not np.all(np.abs(got - want) <= 0.05 * scale + 1e-10):
            out["viol"].append((dict(sig, what="value-in-sequence", step=entry),
                                {"model": name, "state_name": cols, "step": k, "sequence": [(e_, list(t_)) for e_, t_ in seq[:k + 1]],
                                 "got": got.tolist(), "want": want.tolist()}))
            break
        if k and float(np.max(np.abs(want - wants[k - 1]))) > 0.3 * scale:
            out["nontrivial"] += 1
    return out


def main(argv=None):
    run = report.Run("C07", "exploration")
    env.load_pygom()
    quick = run.tier == "quick"
    models = ["SIR_norm", "Asym23"] if quick else ["SIR_norm", "Asym23", "Chain3", "Logistic", "SEIR"]
    jobs = []
    total = 0
    for nme in models:
        d = detmodels.CATALOGUE[nme]["d"]
        states, params = d["states"], d["params"]
        sels = ordered_subsets(states)
        tps = [None] + [list(q) for r in range(1, len(params) + 1) for q in itertools.permutations(params, r) if list(q) != params]
        tss = [None] + [list(q) for r in range(1, len(states) + 1) for q in itertools.permutations(states, r) if list(q) != states]
        cfgs = []
        for kind in lossref.LOSSES:
            wkinds = ["none", "per-state", "per-obs"] if kind in ("Square", "Normal") else ["none"]
            skinds = ["default", "scalar", "per-state"] if kind in lossref.SPREAD_KW else ["default"]
            for cols in sels:
                for wkind, skind in itertools.product(wkinds, skinds):
                    cfgs.append((kind, cols, 0, "uniform", 0.0, wkind, skind, None, None, "sensitivity", None, False))
                    cfgs.append((kind, cols, 1, "int", 0.5, wkind, skind, None, None, "sensitivityIV", None, False))
                    cfgs.append((kind, cols, 1, "int", 0.5, wkind, skind, None, None, "gradient", None, True))
                for tp in tps[1:]:
                    cfgs.append((kind, cols, 0, "uniform", 0.0, "none", "default", tp, None, "sensitivity", None, False))
                    if len(tp) + len(states) != len(params):
                        cfgs.append((kind, cols, 1, "uniform", 0.0, "none", "default", tp, None, "sensitivityIV", None, True))
                for ts in tss[1:]:
                    for tp in (None, tps[1], tps[-1]):
                        cfgs.append((kind, cols, 0, "uniform", 0.5, "none", "default", tp, ts, "sensitivityIV", None, False))
            for meth in ("lsoda", "vode", "dopri5"):
                for fo in (False, True):
                    cfgs.append((kind, sels[-1], 0, "uniform", 0.0, "none", "default", None, None, "sensitivity", meth, fo))
                    cfgs.append((kind, sels[0], 1, "uniform", 0.0, "none", "default", None, None, "sensitivityIV", meth, fo))
        if quick:
            cfgs = cfgs[run.seed % 3::3]
        total += len(cfgs)
        chunk = 25
        for i in range(0, len(cfgs), chunk):
            jobs.append((nme, cfgs[i:i + chunk], run.seed))
    res = pool.pmap(job, jobs, chunksize=1)
    sjobs = [(nme, cols, run.seed) for nme in models for cols in ordered_subsets(detmodels.CATALOGUE[nme]["d"]["states"])[-3:]]
    sres = pool.pmap(seq_job, sjobs, chunksize=1)
    run.count("sequence-leg evaluations", sum(r["runs"] for r in sres))
    run.count("sequence-leg steps that differ from the previous one by >30%", sum(r["nontrivial"] for r in sres))
    res = res + sres
    runs = sum(r["runs"] for r in res)
    nt = sum(r["nontrivial"] for r in res)
    for r in res:
        for sig, case in r["viol"]:
            run.violation(sig, case)
    run.sample({"model": jobs[0][0], "config": list(map(str, jobs[0][1][2]))})
    run.sample({"model": jobs[-1][0], "config": list(map(str, jobs[-1][1][-1]))})
    run.cov.update({
        "evaluations": runs, "distinct_nontrivial": nt,
        "rule": "models %s x 5 loss classes x observed-state selections in every order x weights (Square/Normal) x spread x target_param (every "
                "ordered subset) x target_state (every ordered subset) x {sensitivity, gradient, sensitivityIV} x methods {None, lsoda, vode, dopri5} x "
                "full_output x grids {float, integer-typed with fractional t0}%s: the returned vector is compared (1e-5) with the derivative of the "
                "*reference* cost: reference variational system (sympy, DOP853 1e-12) and the chain rule through independent loss derivatives, in "
                "the order the free variables were supplied. sequence leg: eight gradient evaluations on ONE square-loss object at the generating "
                "parameters, at points a relative 9e-6 away, elsewhere and back (5%% tolerance; a left-over value is off by 50-100%%). non-trivial = reference gradient components pairwise differ by >1%%" % (
                    models, " (quick: every third configuration, selected by VERIF_SEED)" if quick else ""),
        "configurations": total,
    })
    run.assumptions += ["the oracle is the derivative of the reference cost, not finite differences of the library's own cost",
                        "weighted identity only claimed for Square and Normal losses (as the property states)"]
    rc = run.finish(exhaustive=not quick)
    pool.close()
    return rc


if __name__ == "__main__":
    sys.exit(main())
