"""C11 — declared state limits are never violated in stochastic simulation."""
import sys

from mc import env, pool, report, stoch
from checks import _stochfam as fam


def has_limits(d):
    return True


def main(argv=None):
    run = report.Run("C11", "model_checking")
    env.load_pygom()
    quick = run.tier == "quick"
    seeds = ["DRAIN", "CAPPED", "RANGE", "HYBRID", "CAPPEDBIG", "NONPOS"] if quick else ["DRAIN", "CAPPED", "RANGE", "HYBRID", "CAPPEDBIG", "NONPOS", "BD", "SIR", "ONE"]
    dbound = 1
    defs, ngen = fam.gather_defs(seeds, dbound)
    seed_defs, _ = fam.gather_defs(seeds, 0)
    # quick: deviation bound 1 within one edit of five seeds, 2 on the seeds.  thorough: bound 1 within one edit of eight
    # seeds (all initial states and horizons), bound 2 within one edit of the five quick seeds, bound 3 on the seeds
    cfgs = fam.l2_configs(defs, run.tier)
    bound = 1 if quick else 2
    extra = fam.l2_configs(seed_defs, run.tier, modes=fam.MODES[:3], all_x0=True)
    jobs = [(c, 2 if quick else 3, 20000 if quick else 200000, "c11") for c in extra]
    jobs += [(c, 1, 6000 if quick else 20000, "c11") for c in cfgs]
    if not quick:
        qdefs, _ = fam.gather_defs(["DRAIN", "CAPPED", "RANGE", "HYBRID", "CAPPEDBIG", "NONPOS"], 1)
        c2 = fam.l2_configs(qdefs, "quick")
        jobs += [(c, 2, 60000, "c11") for c in c2]
        cfgs = cfgs + c2
    cfgs = extra + cfgs
    # large-population leg (see _stochfam.big_configs): hundreds of individuals, answers relative to the requested mean
    # (a +3 sigma or 10^7 count drives a state below its lower limit or beyond a large declared upper limit)
    big_seeds = ["BD", "SIR", "ONE", "CAPPEDBIG", "RANGE"]
    bseed_defs, _ = fam.gather_defs(big_seeds, 0)
    bdefs = bseed_defs if quick else fam.gather_defs(big_seeds, 1)[0]
    big, big_skipped = fam.big_configs(bdefs, pool.pmap)
    seed_keys = {fam.gen.canon(d) for _s, d in bseed_defs}
    jobs += [(c, 2 if fam.gen.canon(c.d) in seed_keys else 1, 100000, "c11") for c in big]
    cfgs = cfgs + big
    res = pool.pmap(stoch.explore_config, jobs, chunksize=1)
    ex, steps, capped, nout = fam.summarize_l2(run, res, cfgs)
    l1j = fam.l1_jobs(defs, run.tier)
    l1 = pool.pmap(stoch.l1_explore, l1j, chunksize=1)
    l1s, l1t = fam.summarize_l1(run, l1, l1j)
    nlim = {}
    for _s, d in defs:
        for l in d["limits"]:
            k = "limit:" + ("absent" if l is None else "lower" if l[1] is None and l[0] is not None else
                            "upper" if l[0] is None and l[1] is not None else "none-none" if l[0] is None else "two-sided")
            nlim[k] = nlim.get(k, 0) + 1
        run.count("style:" + d["state_style"])
    for k, v in nlim.items():
        run.count(k, v)
    refused = run.counters.get("L1 illegal proposals refused", 0)
    run.cov.update({
        "evaluations": ex + l1t,
        "distinct_nontrivial": nout + l1s,
        "rule": "as C04, on %d definitions within %d edits of seeds %s whose states carry absent, lower, upper, "
                "two-sided and (None,None) limits (list, tuple and range-style declarations), constant-rate deaths "
                "and magnitudes up to 3, poisson answers up to 7 (overshooting every limit). L2: every recorded state "
                "must be inside its limits and the path must equal the reference path that refuses exactly the illegal "
                "proposals; L1: every illegal proposal (%d of them) must return success=False with x and t unchanged." % (
                    len(defs), dbound, seeds, refused),
        "states": l1s, "transitions": l1t, "traces_validated_against_impl": ex,
        "illegal_proposals_checked": refused,
        "large_population_configurations": len(big), "large_population_skipped": big_skipped,
        "configurations": len(cfgs), "definitions": len(defs), "deviation_bound_completed": bound,
        "capped_configurations": capped[:20],
    })
    run.assumptions += ["lower limit 0 is assumed when a state is declared without limits (as the property states)",
                        "executions that leave the domain where all rates are non-negative (only possible when the user declared no lower limit) are not judged"]
    rc = run.finish(exhaustive=not capped)
    pool.close()
    return rc


if __name__ == "__main__":
    sys.exit(main())
