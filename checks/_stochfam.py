"""shared pieces of the stochastic-simulation checks (C04, C05, C10, C11, C15, C16)"""
from mc import gen, stoch

MODES = [(("exact",), [1.0, 2.5]), (("tau_fixed", 0.4), [1.0, 2.5]),
         (("tau_adaptive", 0.3), [0.5, 1.2]), (("tau_adaptive", 0.03), [0.04, 0.1])]


def gather_defs(seeds, bound, keep=None, **genkw0):
    """all distinct definitions within `bound` named-choice edits of each seed"""
    defs = {}
    nexec = 0
    for sname in seeds:
        genkw = dict(genkw0)
        if sname == "HYBRID":
            genkw["hybrid"] = True
        ov, _ = gen.seed(gen.seed_values(sname), stochastic=True, **genkw)

        def on_def(o, pts, d, sname=sname):
            if keep is not None and not keep(d):
                return
            k = gen.canon(d)
            if k not in defs:
                defs[k] = (sname, d, len(o))
        nexec += gen.explore(ov, bound, lambda ch, genkw=genkw: gen.gen_model(ch, stochastic=True, **genkw), on_def)
    out = [(sname, d) for _k, (sname, d, _n) in sorted(defs.items())]
    return out, nexec


NEAR_T = {"exact": 2 * stoch.sched.EXP_MENU[0] * (1 + 2e-7), "tau_fixed": 0.8 * (1 + 2e-7)}


def l2_configs(defs, tier, modes=None, all_x0=None, near=False):
    out = []
    for i, (sname, d) in enumerate(defs):
        ns = len(d["states"])
        x0s = stoch.X0S[ns] if (tier == "thorough" or all_x0) else stoch.X0S[ns][:1]
        x0s = [stoch.legal_x0(d, x0) for x0 in x0s]
        xb = boundary_x0(d)
        if xb is not None and xb not in x0s:
            x0s.append(xb)
        for x0 in x0s:
            for mode, Ts in (modes or MODES):
                Ts = list(Ts if tier == "thorough" else Ts[:1])
                if near and mode[0] in NEAR_T:
                    # a horizon a hair beyond a time the all-default execution lands on
                    Ts.append(NEAR_T[mode[0]])
                for T in Ts:
                    name = "%s#%d/%s/x0=%s/T=%s" % (sname, i, "-".join(map(str, mode)), x0, T)
                    out.append(stoch.Config(d, stoch.theta_for(d), x0, T, mode, name=name))
    return out


BIG_X0 = {1: [800], 2: [700, 300], 3: [900, 60, 40], 4: [600, 250, 100, 50], 5: [600, 200, 100, 60, 40]}
BIG_MODES = [("tau_adaptive", 0.03), ("tau_fixed", 0.4), ("tau_adaptive", 0.3)]


def big_configs(defs, pmap, nsteps=4, modes=None, x0s=None):
    """Large-population leg: hundreds of individuals, where a leap really moves many individuals at once.  The poisson
    answers are stated relative to the requested mean (rounded mean by default; none, +3 sigma, beyond every population
    as deviations) and the horizon is placed between the `nsteps`-1 th and `nsteps` th time of the all-default execution."""
    from mc import stoch as _st
    cfgs = []
    for i, (sname, d) in enumerate(defs):
        ns = len(d["states"])
        cand = list(x0s or [BIG_X0[ns]])
        lims = d.get("limits") or []
        if any(l is not None and l[1] is not None and l[1] >= 100 for l in lims):
            # a start two individuals below a large declared upper limit
            cand.append([int(l[1]) - 2 if (l is not None and l[1] is not None and l[1] >= 100) else b
                         for l, b in zip(lims, BIG_X0[ns])])
        for x0 in cand:
            x0 = _st.legal_x0(d, x0)
            for mode in (modes or BIG_MODES):
                name = "%s#%d/big/%s/x0=%s" % (sname, i, "-".join(map(str, mode)), x0)
                cfgs.append(_st.Config(d, _st.theta_for(d), x0, None, mode, name=name, menu="relative"))
    Ts = pmap(_st.probe_horizon, [(c, nsteps) for c in cfgs], chunksize=4)
    out = []
    for c, T in zip(cfgs, Ts):
        if T is not None:
            c.T = float(T)
            c.name += "/T=%.6g" % T
            out.append(c)
    return out, len(cfgs) - len(out)


LONG_X0 = {1: [700], 2: [400, 200], 3: [330, 3, 0]}


def long_configs(defs):
    """Long exact runs: several hundred events in one run (every buffer, block or list the run loop keeps is crossed many
    times), all-default answers only (deviation bound 0), run to absorption or to a horizon of 250 time units."""
    from mc import stoch as _st
    out = []
    for i, (sname, d) in enumerate(defs):
        ns = len(d["states"])
        if ns not in LONG_X0:
            continue
        x0 = _st.legal_x0(d, LONG_X0[ns])
        c = _st.Config(d, _st.theta_for(d), x0, 250.0, ("exact",), name="%s#%d/long/exact/x0=%s/T=250" % (sname, i, x0))
        c.horizon = 6000
        out.append(c)
    return out


def boundary_x0(d):
    """a start state sitting on every declared upper limit (None when no upper limit)"""
    lims = d.get("limits") or []
    if not any(l is not None and l[1] is not None for l in lims):
        return None
    base = stoch.legal_x0(d, stoch.X0S[len(d["states"])][0])
    return [int(l[1]) if (l is not None and l[1] is not None) else b for l, b in zip(lims, base)]


def l1_jobs(defs, tier, cap=None):
    cap = cap or (5 if tier == "quick" else 7)
    jobs = []
    for i, (sname, d) in enumerate(defs):
        ns = len(d["states"])
        ne = len(d["events"])
        x0 = [stoch.legal_x0(d, stoch.X0S[ns][0])]
        xb = boundary_x0(d)
        if xb is not None and xb not in x0:
            x0.append(xb)
        pois = (0, 1, 2, 7) if ne <= 3 else (0, 1, 7)
        tms = [("tau_fixed", 0.4), ("tau_adaptive", 0.3)] if ne <= 3 else [("tau_fixed", 0.4)]
        jobs.append(("%s#%d" % (sname, i), d, stoch.theta_for(d), x0, cap, tms, pois))
    return jobs


def summarize_l2(run, res, cfgs, sigfn=None):
    ex = sum(r["executions"] for r in res)
    steps = sum(r["steps"] for r in res)
    capped = [r["cfg"] for r in res if r["capped"]]
    for r, c in zip(res, cfgs):
        for v in r["violations"]:
            sig = {"layer": "execution", "what": v["what"], "mode": c.mode[0]}
            if sigfn:
                sig.update(sigfn(c, v))
            run.violation(sig, {"config": c.key(), "violation": v})
        if r["n_violations"] > len(r["violations"]):
            run.count("violating_executions_not_listed", r["n_violations"] - len(r["violations"]))
        if r["sample"]:
            run.sample(r["sample"], cap=2)
        run.count("L2 executions mode:" + c.mode[0], r["executions"])
        run.count("L2 configurations with %s-typed initial state" % stoch.x0_dtype(c).__name__)
        if r["skipped"]:
            run.count("L2 skipped:" + r["skipped"][:60])
        for why, n in r["unjudged"].items():
            run.count("L2 unjudged:" + why, n)
    return ex, steps, capped, sum(r.get("n_outcomes", 0) for r in res)


def summarize_l1(run, res, jobs):
    states = sum(r["states"] for r in res)
    trans = sum(r["transitions"] for r in res)
    for r, j in zip(res, jobs):
        for v in r["violations"]:
            sig = {"layer": "step", "what": v["what"]}
            run.violation(sig, {"model": j[0], "def": j[1], "theta": j[2], "violation": v})
        if r["skipped"]:
            run.count("L1 skipped:" + r["skipped"][:60])
        if r["sample"]:
            run.sample(r["sample"], cap=4)
        run.count("L1 illegal proposals refused", r["illegal_steps"])
        run.count("L1 states beyond population cap (not expanded)", r["capped_states"])
    return states, trans
