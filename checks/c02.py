"""C02 — deterministic solvers return the ODE solution at each requested time."""
import itertools
import sys

import numpy as np

from mc import build, detmodels, env, gen, pool, report

METHODS = [None, "lsoda", "vode", "ivode", "dopri5", "dop853"]
GRIDS = {
    "uniform": lambda: np.linspace(0.75, 5.0, 9),
    "nonuniform": lambda: np.array([0.6, 0.65, 1.0, 2.75, 4.0]),
    "scalar": lambda: 2.25,
    "one-element": lambda: [2.25],
    "int-array": lambda: np.arange(1, 6),
    "int-list": lambda: [1, 2, 4],
}


def job(args):
    name, d, theta, x0, t0, seed = args
    out = {"name": name, "viol": [], "runs": 0, "nontrivial": 0, "skipped": None}
    from pygom.model import ode_utils
    # an initial state of whole numbers may be handed over integer-typed (head counts): name ends in "/int-array" or "/int-list"
    if name.endswith("/int-array"):
        x0_in = lambda: np.array(x0, dtype=int)
    elif name.endswith("/int-list"):
        x0_in = lambda: [int(v) for v in x0]
    else:
        x0_in = lambda: np.array(x0, float)
    try:
        m, _ = build.build(d)
        m.parameters = list(theta)
        m.initial_values = (x0_in(), t0)
    except Exception as e:
        out["skipped"] = "build: %s" % e
        return out
    refcache = {}

    def refsol(times):
        key = tuple(np.atleast_1d(np.asarray(times, float)).tolist())
        if key not in refcache:
            cat = name.split("/")[0] if name.split("/")[0] in detmodels.CATALOGUE else None
            refcache[key] = detmodels.reference_solution(cat, theta, x0, t0, list(key), d=d)
        return refcache[key]

    def judge(entry, gname, times, sol, origin, tol):
        out["runs"] += 1
        tl = np.atleast_1d(np.asarray(times, float))
        sol = np.asarray(sol, float)
        want = refsol(tl)
        if origin:
            want = np.vstack([np.asarray(x0, float)[None, :], want])
        sig = {"entry": entry.split("(")[0], "grid": gname}
        if sol.shape != want.shape:
            out["viol"].append(dict(sig, what="shape", detail={"entry": entry, "got": list(sol.shape), "want": list(want.shape)}))
            return
        if origin and not np.array_equal(sol[0], np.asarray(x0, float)):
            out["viol"].append(dict(sig, what="first-row-not-x0", detail={"entry": entry, "got": sol[0].tolist()}))
            return
        err = np.abs(sol - want) - tol * (1.0 + np.abs(want))
        if np.any(err > 0):
            k = int(np.argmax(np.max(err, axis=1)))
            out["viol"].append(dict(sig, what="row-not-the-solution", detail={"entry": entry, "row": k, "got": sol[k].tolist(),
                                                                        "want": want[k].tolist(), "times": tl.tolist(), "t0": t0}))
            return
        if len(want) > 1 and np.min(np.max(np.abs(np.diff(want, axis=0)), axis=1)) > 1e-3:
            out["nontrivial"] += 1

    for gname, gfn in GRIDS.items():
        g = gfn()
        if t0 != 0.0 and gname in ("uniform", "nonuniform") and seed % 2:
            pass
        # model entry points (origin always included)
        for fo in (False, True):
            for entry, call in (("integrate", lambda: m.integrate(gfn(), full_output=fo)),
                                ("solve_determ", lambda: m.solve_determ(gfn())) if not fo else (None, None)):
                if entry is None:
                    continue
                try:
                    r = call()
                    sol = r[0] if (fo and entry == "integrate") else r
                    judge("%s(full_output=%s)" % (entry, fo), gname, g, sol, True, 2e-5)
                except Exception as e:
                    out["viol"].append({"entry": entry, "grid": gname, "what": "raised", "detail": {"error": "%s: %s" % (type(e).__name__, e), "full_output": fo}})
            for meth in METHODS:
                try:
                    r = m.integrate2(gfn(), full_output=fo, method=meth)
                    sol = r[0] if fo else r
                    judge("integrate2(method=%s, full_output=%s)" % (meth, fo), gname, g, sol, True, 1e-6)
                except Exception as e:
                    out["viol"].append({"entry": "integrate2", "grid": gname, "what": "raised", "detail": {"error": "%s: %s" % (type(e).__name__, e), "method": meth, "full_output": fo}})
                for origin in (False, True):
                    try:
                        r = ode_utils.integrateFuncJac(m.ode_T, m.jacobian_T, x0_in(), t0, gfn(),
                                                       includeOrigin=origin, full_output=fo, method=meth)
                        sol = r[0] if fo else r
                        judge("integrateFuncJac(method=%s, full_output=%s, includeOrigin=%s)" % (meth, fo, origin), gname, g, sol, origin, 1e-6)
                    except Exception as e:
                        out["viol"].append({"entry": "integrateFuncJac", "grid": gname, "what": "raised",
                                            "detail": {"error": "%s: %s" % (type(e).__name__, e), "method": meth, "full_output": fo, "includeOrigin": origin}})
    return out


def history_job(args):
    """a solve from a NON-initial state of the program: model A is solved, then changed (a death process is added with
    add_event), another live model B of the original definition is solved, then A is solved again through every entry
    point: the rows must be the solution of the CHANGED model (a stale compiled right-hand side, or recompilation state
    shared between model objects, would return the old one)"""
    import copy
    name, d, theta, x0, t0, seed = args
    out = {"name": name, "viol": [], "runs": 0, "nontrivial": 0, "skipped": None}
    pg = env.load_pygom()
    from pygom.model import ode_utils
    grid = np.linspace(t0 + 0.5, t0 + 3.0, 6)
    extra = {"rate": "0.37*%s" % d["states"][0], "trans": [("D", d["states"][0], None, "1")]}
    d2 = copy.deepcopy(d)
    d2["events"] = list(d2["events"]) + [extra]
    try:
        want_old = detmodels.reference_solution(None, theta, x0, t0, grid, d=d)
        want = detmodels.reference_solution(None, theta, x0, t0, grid, d=d2)
        A, _ = build.build(d)
        A.parameters = list(theta)
        A.initial_values = (np.array(x0, float), t0)
        A.integrate(grid)
        A.integrate2(grid, method="dopri5")
        _, obj = build.make_event_obj(pg, extra, "event")
        A.add_event(obj)
        B, _ = build.build(d)
        B.parameters = list(theta)
        B.initial_values = (np.array(x0, float), t0)
        solB = np.asarray(B.integrate(grid), float)[1:]
    except Exception as e:
        out["skipped"] = "history: %s: %s" % (type(e).__name__, e)
        return out
    calls = [("integrate", lambda: A.integrate(grid), True, 2e-5), ("solve_determ", lambda: A.solve_determ(grid), True, 2e-5)]
    for meth in (None, "lsoda", "dopri5"):
        calls.append(("integrate2(method=%s)" % meth, lambda meth=meth: A.integrate2(grid, method=meth), True, 1e-6))
        calls.append(("integrateFuncJac(method=%s)" % meth, lambda meth=meth: ode_utils.integrateFuncJac(
            A.ode_T, A.jacobian_T, np.array(x0, float), t0, grid, method=meth), False, 1e-6))
    moved = float(np.max(np.abs(want - want_old)))
    if np.max(np.abs(solB - want_old) - 2e-5 * (1 + np.abs(want_old))) > 0:
        out["viol"].append({"entry": "integrate", "grid": "history", "what": "other-live-model-not-the-solution", "detail": {"got": solB[-1].tolist(), "want": want_old[-1].tolist()}})
    for entry, call, origin, tol in calls:
        out["runs"] += 1
        try:
            sol = np.asarray(call(), float)
            sol = sol[1:] if origin else sol
            if sol.shape != want.shape or np.max(np.abs(sol - want) - tol * (1 + np.abs(want))) > 0:
                out["viol"].append({"entry": entry.split("(")[0], "grid": "history", "what": "row-not-the-solution-of-the-changed-model",
                                    "detail": {"entry": entry, "got": sol[-1].tolist() if sol.ndim == 2 else None, "want": want[-1].tolist(), "old_model": want_old[-1].tolist()}})
            elif moved > 1e-3:
                out["nontrivial"] += 1
        except Exception as e:
            out["viol"].append({"entry": entry.split("(")[0], "grid": "history", "what": "raised", "detail": {"error": "%s: %s" % (type(e).__name__, e), "entry": entry}})
    return out


def generated_models(k):
    """bounded-rate generated definitions (closed SIRS-like variants)"""
    out = []
    for sname in ("SIRS2", "CHAIN", "SIR", "BD")[:k]:
        _, d = gen.seed(gen.seed_values(sname), stochastic=True)
        out.append(("gen:" + sname, d))
    return out


def main(argv=None):
    run = report.Run("C02", "exploration")
    env.load_pygom()
    quick = run.tier == "quick"
    names = ["SIR_norm", "Lotka_Volterra", "SIS_Periodic", "Chain3", "Logistic", "FitzHugh"] if quick else list(detmodels.CATALOGUE)
    jobs = []
    for nme in names:
        c = detmodels.CATALOGUE[nme]
        for k, (th, x0) in enumerate(zip(c["theta"], c["x0"])):
            if quick and k:
                continue
            for t0 in (0.0, 0.5):
                jobs.append((nme, c["d"], th, x0, t0, run.seed))
    # whole-number initial states handed over integer-typed
    for nme, kind in (("Lotka_Volterra", "int-array"), ("Chain3", "int-list")) if quick else \
            (("Lotka_Volterra", "int-array"), ("Chain3", "int-list"), ("SEIR", "int-array"), ("Logistic", "int-list"), ("Asym23", "int-array")):
        c = detmodels.CATALOGUE[nme]
        xi = [float(max(1, round(v * (10 if max(c["x0"][0]) <= 1 else 1)))) for v in c["x0"][0]]
        jobs.append((nme + "/" + kind, c["d"], c["theta"][0], xi, 0.5, run.seed))
    from mc import stoch
    for nme, d in generated_models(2 if quick else 4):
        ns = len(d["states"])
        jobs.append((nme, d, stoch.theta_for(d), [3.0, 1.0, 0.5, 2.0][:ns], 0.5, run.seed))
    res = pool.pmap(job, jobs, chunksize=1)
    hjobs = [j for j in jobs if j[1]["events"] or True][::1 if not quick else 2]
    hres = pool.pmap(history_job, hjobs, chunksize=1)
    run.count("history-leg solves", sum(r["runs"] for r in hres))
    res = res + hres
    jobs = jobs + hjobs
    runs = sum(r["runs"] for r in res)
    nt = sum(r["nontrivial"] for r in res)
    for r, j in zip(res, jobs):
        if r["skipped"]:
            run.count("skipped:" + r["skipped"][:50])
        for v in r["viol"]:
            run.violation({"entry": v["entry"], "grid": v["grid"], "what": v["what"],
                           "method": str(v["detail"].get("method")) if "method" in v["detail"] else None},
                          {"model": j[0], "theta": j[2], "x0": j[3], "t0": j[4], "violation": v})
    run.sample({"model": jobs[0][0], "theta": jobs[0][2], "x0": jobs[0][3], "t0": jobs[0][4], "entry": "integrateFuncJac(method=lsoda, full_output=False, includeOrigin=True)", "grid": "uniform"})
    run.sample({"model": jobs[-1][0], "theta": jobs[-1][2], "x0": jobs[-1][3], "t0": jobs[-1][4], "entry": "integrate2(method=dop853, full_output=True)", "grid": "int-array"})
    run.cov.update({
        "evaluations": runs, "distinct_nontrivial": nt,
        "rule": "%d model/parameter/initial-time configurations (catalogue %s + generated bounded-rate models; t0 in {0, 0.5}; whole-number initial states also integer-typed) x grids %s x "
                "{integrate, solve_determ, integrate2(method), integrateFuncJac(method, includeOrigin)} x methods %s x full_output: every "
                "combination executed; shape, first row, and every row within 1e-6(1+|x|) (2e-5 for the odeint based entries) of the closed "
                "form or of DOP853(1e-12) on the reference right-hand side. history leg: solve A, add a death process to A with add_event, "
                "solve another live model B, solve A again through every entry point: rows must be the solution of the CHANGED model. "
                "non-trivial = consecutive reference rows differ by > 1e-3" % (
                    len(jobs), names, list(GRIDS), METHODS),
        "exhaustive": True,
    })
    run.assumptions += ["scipy's DOP853 at rtol 1e-12 on the sympy reference right-hand side (or a closed form) is the true solution",
                        "the check decides alignment, ordering, aliasing and shaping of the output, not the numerical analysis of the integrators"]
    rc = run.finish(exhaustive=True)
    pool.close()
    return rc


if __name__ == "__main__":
    sys.exit(main())
