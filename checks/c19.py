"""C19 — R-style distribution helpers are the distributions they name."""
import itertools
import sys

import mpmath as mp
import numpy as np

from mc import env, report

mp.mp.dps = 40


def F(x):
    return mp.mpf(repr(float(x)))


# textbook densities / distribution functions with R's parameterisation, in mpmath
def exp_pdf(x, rate): return rate * mp.e ** (-rate * x) if x >= 0 else mp.mpf(0)
def exp_cdf(x, rate): return 1 - mp.e ** (-rate * x) if x >= 0 else mp.mpf(0)
def gamma_pdf(x, shape, rate): return rate ** shape * x ** (shape - 1) * mp.e ** (-rate * x) / mp.gamma(shape) if x > 0 else mp.mpf(0)
def gamma_cdf(x, shape, rate): return mp.gammainc(shape, 0, rate * x, regularized=True) if x > 0 else mp.mpf(0)
def norm_pdf(x, mean, sd): return mp.e ** (-(x - mean) ** 2 / (2 * sd ** 2)) / (sd * mp.sqrt(2 * mp.pi))
def norm_cdf(x, mean, sd): return mp.ncdf((x - mean) / sd)
def chisq_pdf(x, df): return gamma_pdf(x, df / 2, mp.mpf(1) / 2)
def chisq_cdf(x, df): return gamma_cdf(x, df / 2, mp.mpf(1) / 2)
def unif_pdf(x, a, b): return 1 / (b - a) if a <= x <= b else mp.mpf(0)
def unif_cdf(x, a, b): return min(max((x - a) / (b - a), mp.mpf(0)), mp.mpf(1))
def beta_pdf(x, a, b): return x ** (a - 1) * (1 - x) ** (b - 1) / mp.beta(a, b)
def beta_cdf(x, a, b): return mp.betainc(a, b, 0, x, regularized=True)
def pois_pmf(k, mu): return mu ** k * mp.e ** (-mu) / mp.factorial(k)
def pois_cdf(k, mu): return mp.fsum(pois_pmf(j, mu) for j in range(0, int(k) + 1))
def binom_pmf(k, n, p): return mp.binomial(n, k) * p ** k * (1 - p) ** (n - k)
def binom_cdf(k, n, p): return mp.fsum(binom_pmf(j, n, p) for j in range(0, int(k) + 1))
def nbinom_pmf(k, size, prob): return mp.gamma(k + size) / (mp.gamma(size) * mp.factorial(k)) * prob ** size * (1 - prob) ** k


def relclose(got, want, tol=1e-9):
    got = mp.mpf(repr(float(got)))
    if want == 0:
        return abs(got) <= 1e-300
    return abs(got - want) <= tol * abs(want)


def logclose(got, want_log, tol=1e-9):
    got = float(got)
    if want_log == -mp.inf:
        return got == -np.inf
    return abs(mp.mpf(repr(got)) - want_log) <= tol * (1 + abs(want_log))


def main(argv=None):
    run = report.Run("C19", "exploration")
    env.load_pygom()
    from pygom.utilR import distn as R
    quick = run.tier == "quick"
    n = 0
    nt = 0
    rnd = np.random.RandomState(7000 + run.seed)
    jit = float(round(rnd.uniform(0.3, 3.0), 3))

    def viol(what, fn, **kw):
        run.violation({"function": fn, "what": what}, kw)

    def call(fn, *a, **kw):
        return getattr(R, fn)(*a, **kw)

    # ---------------------------------------------------------------- continuous families
    cont = {
        "exp": dict(params=[dict(rate=r) for r in (0.4, 1.0, 2.5, jit)], xs=[0.0, 1e-3, 0.3, 1.0, 2.5, 9.0, 400.0],
                    pdf=lambda x, p: exp_pdf(x, F(p["rate"])), cdf=lambda x, p: exp_cdf(x, F(p["rate"])), plog=True),
        "gamma": dict(params=[dict(shape=a, rate=r) for a, r in itertools.product((0.7, 1.0, 3.5), (0.5, 1.0, 2.5))] + [dict(shape=jit, rate=1.7)],
                      xs=[1e-3, 0.3, 1.0, 2.5, 9.0, 40.0, 300.0],
                      pdf=lambda x, p: gamma_pdf(x, F(p["shape"]), F(p["rate"])), cdf=lambda x, p: gamma_cdf(x, F(p["shape"]), F(p["rate"])), plog=True),
        "norm": dict(params=[dict(mean=m, sd=s) for m, s in itertools.product((-1.5, 0.0, 2.0), (0.5, 1.0, 3.0))] + [dict(mean=jit, sd=0.8)],
                     xs=[-40.0, -3.0, -0.2, 0.0, 0.7, 2.0, 6.5, 40.0],
                     pdf=lambda x, p: norm_pdf(x, F(p["mean"]), F(p["sd"])), cdf=lambda x, p: norm_cdf(x, F(p["mean"]), F(p["sd"])), plog=True),
        "chisq": dict(params=[dict(df=d) for d in (1.0, 2.0, 4.5, 11.0)], xs=[1e-3, 0.3, 1.0, 2.5, 9.0, 40.0, 700.0],
                      pdf=lambda x, p: chisq_pdf(x, F(p["df"])), cdf=lambda x, p: chisq_cdf(x, F(p["df"])), plog=True),
        "unif": dict(params=[dict(min=a, max=b) for a, b in ((0.0, 1.0), (-2.0, 3.0), (1.5, 1.75))], xs=None,
                     pdf=lambda x, p: unif_pdf(x, F(p["min"]), F(p["max"])), cdf=lambda x, p: unif_cdf(x, F(p["min"]), F(p["max"])), plog=True),
    }
    for fam, spec in cont.items():
        for p in spec["params"]:
            xs = spec["xs"]
            if xs is None:
                a, b = p["min"], p["max"]
                xs = [a + (b - a) * f for f in (0.0, 0.001, 0.25, 0.5, 0.9, 1.0)]
            for x in xs:
                xm = F(x)
                want_pdf, want_cdf = spec["pdf"](xm, p), spec["cdf"](xm, p)
                for log in (False, True):
                    for kind, want in (("d", want_pdf), ("p", want_cdf)):
                        fn = kind + fam
                        n += 1
                        try:
                            got = call(fn, x, log=log, **p)
                        except Exception as e:
                            viol("raised", fn, args=[x, p, log], error="%s: %s" % (type(e).__name__, e))
                            continue
                        if log:
                            ok = logclose(got, mp.log(want) if want > 0 else -mp.inf)
                        else:
                            ok = relclose(got, want) if want > mp.mpf("1e-300") else float(got) <= 1e-290
                        if not ok:
                            viol("value" + ("-log" if log else ""), fn, args=[x, p], got=float(got), want=str(mp.nstr(mp.log(want) if (log and want > 0) else want, 15)))
                        elif want > 0:
                            nt += 1
                # quantile inverts the distribution function
                pc = float(want_cdf)
                if 1e-12 < pc < 1 - 1e-9:
                    n += 1
                    try:
                        q = call("q" + fam, pc, **p)
                        if abs(float(q) - x) > 1e-6 * (1 + abs(x)):
                            viol("quantile-not-inverse", "q" + fam, args=[pc, p], got=float(q), want=x)
                        else:
                            nt += 1
                    except Exception as e:
                        viol("raised", "q" + fam, args=[pc, p], error="%s: %s" % (type(e).__name__, e))
    # beta: d (plain/log) and q
    for a, b in itertools.product((0.6, 1.0, 2.5), (0.8, 3.0)):
        for x in (0.01, 0.2, 0.5, 0.93):
            want = beta_pdf(F(x), F(a), F(b))
            for log in (False, True):
                n += 1
                try:
                    got = R.dbeta(x, a, b, log=log)
                    ok = logclose(got, mp.log(want)) if log else relclose(got, want)
                    if not ok:
                        viol("value" + ("-log" if log else ""), "dbeta", args=[x, a, b], got=float(got), want=str(mp.nstr(want, 15)))
                    else:
                        nt += 1
                except Exception as e:
                    viol("raised", "dbeta", args=[x, a, b, log], error="%s: %s" % (type(e).__name__, e))
            pc = float(beta_cdf(F(x), F(a), F(b)))
            n += 1
            q = R.qbeta(pc, a, b)
            if abs(float(q) - x) > 1e-6:
                viol("quantile-not-inverse", "qbeta", args=[pc, a, b], got=float(q), want=x)
    # ---------------------------------------------------------------- discrete families
    for mu in (0.3, 1.0, 4.5, 20.0, jit):
        for k in (0, 1, 2, 5, 17, 60):
            for log in (False, True):
                for fn, want in (("dpois", pois_pmf(k, F(mu))), ("ppois", pois_cdf(k, F(mu)))):
                    n += 1
                    try:
                        got = getattr(R, fn)(k, mu, log=log)
                        ok = logclose(got, mp.log(want)) if log else relclose(got, want)
                        if not ok:
                            viol("value" + ("-log" if log else ""), fn, args=[k, mu], got=float(got), want=str(mp.nstr(want, 15)))
                        else:
                            nt += 1
                    except Exception as e:
                        viol("raised", fn, args=[k, mu, log], error="%s: %s" % (type(e).__name__, e))
            pc = float(pois_cdf(k, F(mu)))
            # the smallest k with P(X<=k) >= p; probe just below the step - which only stays inside the step when the
            # step (the probability of k itself) is much higher than the relative 1e-9 the probe goes down by
            if pc < 1 - 1e-12 and float(pois_pmf(k, F(mu))) > 1e-6:
                n += 1
                q = R.qpois(pc * (1 - 1e-9), mu)
                if int(q) != k:
                    viol("quantile-not-inverse", "qpois", args=[pc, mu], got=float(q), want=k)
    for size, prob in itertools.product((1, 4, 12), (0.2, 0.5, 0.85)):
        for k in sorted({0, 1, size // 2, size}):
            for log in (False, True):
                for fn, want in (("dbinom", binom_pmf(k, size, F(prob))), ("pbinom", binom_cdf(k, size, F(prob)))):
                    n += 1
                    try:
                        got = getattr(R, fn)(k, size, prob, log=log)
                        ok = logclose(got, mp.log(want)) if log else relclose(got, want)
                        if not ok:
                            viol("value" + ("-log" if log else ""), fn, args=[k, size, prob], got=float(got), want=str(mp.nstr(want, 15)))
                        else:
                            nt += 1
                    except Exception as e:
                        viol("raised", fn, args=[k, size, prob, log], error="%s: %s" % (type(e).__name__, e))
            pc = float(binom_cdf(k, size, F(prob)))
            if pc < 1 - 1e-12 and float(binom_pmf(k, size, F(prob))) > 1e-6:
                n += 1
                q = R.qbinom(pc * (1 - 1e-9), size, prob)
                if int(q) != k:
                    viol("quantile-not-inverse", "qbinom", args=[pc, size, prob], got=float(q), want=k)
    # negative binomial: (size, prob) form and mean/size form agree with each other and the pmf
    for size, mu in itertools.product((0.5, 1.0, 3.0, 7.5), (0.4, 2.0, 9.0, jit)):
        prob = size / (size + mu)
        for k in (0, 1, 3, 12, 40):
            want = nbinom_pmf(k, F(size), F(size) / (F(size) + F(mu)))
            for log in (False, True):
                n += 1
                try:
                    g1 = R.dnbinom(k, size, prob=prob, log=log)
                    g2 = R.dnbinom(k, size, mu=mu, log=log)
                    ok = all((logclose(g, mp.log(want)) if log else relclose(g, want)) for g in (g1, g2))
                    if not ok:
                        viol("value" + ("-log" if log else ""), "dnbinom", args=[k, size, mu], got=[float(g1), float(g2)], want=str(mp.nstr(want, 15)))
                    else:
                        nt += 1
                except Exception as e:
                    viol("raised", "dnbinom", args=[k, size, mu, log], error="%s: %s" % (type(e).__name__, e))
    # ---------------------------------------------------------------- seeded generators
    gens = {
        "rexp": (dict(rate=2.5), lambda rs, n_, p: rs.exponential(scale=1.0 / p["rate"], size=n_)),
        "rgamma": (dict(shape=3.5, rate=2.5), lambda rs, n_, p: rs.gamma(p["shape"], scale=1.0 / p["rate"], size=n_)),
        "rnorm": (dict(mean=-1.5, sd=3.0), lambda rs, n_, p: rs.normal(loc=p["mean"], scale=p["sd"], size=n_)),
        "rchisq": (dict(df=4.5), lambda rs, n_, p: rs.chisquare(df=p["df"], size=n_)),
        "runif": (dict(min=-2.0, max=3.0), lambda rs, n_, p: rs.uniform(low=p["min"], high=p["max"], size=n_)),
        "rpois": (dict(mu=4.5), lambda rs, n_, p: rs.poisson(p["mu"], size=n_)),
        "rbinom": (dict(size=12, prob=0.35), lambda rs, n_, p: rs.binomial(n=p["size"], p=p["prob"], size=n_)),
    }
    seeds = list(range(0, 21)) + [run.seed * 1000 + 12345]
    for fn, (p, refdraw) in gens.items():
        for n_ in (1, 2, 5):
            outs = {}
            for sd in seeds:
                n += 1
                try:
                    a = np.atleast_1d(getattr(R, fn)(n_, seed=sd, **p))
                    np.random.random(3)              # the global stream moves between the two calls
                    getattr(R, fn)(2, **p)           # ... also through an unseeded call of the same generator
                    b = np.atleast_1d(getattr(R, fn)(n_, seed=sd, **p))
                except Exception as e:
                    viol("raised", fn, args=[n_, sd, p], error="%s: %s" % (type(e).__name__, e))
                    continue
                if a.shape != (n_,) or not np.array_equal(a, b):
                    viol("same-seed-different-draws", fn, n=n_, seed=sd, first=a.tolist(), second=b.tolist())
                    continue
                want = np.atleast_1d(refdraw(np.random.RandomState(sd), n_, p))
                if not np.allclose(a, want, rtol=1e-12, atol=0):
                    viol("not-the-named-distribution-with-R-parameters", fn, n=n_, seed=sd, got=a.tolist(), want=want.tolist())
                    continue
                outs[sd] = tuple(a.tolist())
                nt += 1
            if n_ == 5 and len(set(outs.values())) != len(outs):
                viol("different-seeds-same-draws", fn, n=n_)
    run.sample({"function": "dgamma", "x": 2.5, "shape": 3.5, "rate": 2.5, "log": [False, True]})
    run.sample({"function": "rpois", "n": 5, "seed": 7, "mu": 4.5})
    run.cov.update({
        "evaluations": n, "distinct_nontrivial": nt,
        "rule": "every implemented d/p/q function of exp, gamma, norm, chisq, unif, beta, pois, binom, nbinom on a grid of arguments "
                "(including boundary-adjacent and far-tail points where the plain value underflows) x parameter grid (+1 seed-dependent "
                "value) x log in {False, True}: compared (1e-9 relative; logs against the log of the 40-digit mpmath value) with textbook "
                "formulas in R's parameterisation; q inverts p; dnbinom(mu,size)==dnbinom(size,prob=size/(size+mu)); each seeded generator "
                "x n in {1,2,5} x integer seeds 0..20 and one more: two calls with the same seed (global stream advanced in between) give "
                "identical draws equal to numpy.RandomState(seed) with scale=1/rate, different seeds differ",
        "exhaustive": True,
    })
    run.assumptions += ["mpmath special functions are the oracle for densities and distribution functions",
                        "pnbinom/qnbinom/rnbinom are empty stubs in the library and are not claimed ('every implemented function')"]
    return run.finish(exhaustive=True)


if __name__ == "__main__":
    sys.exit(main())
