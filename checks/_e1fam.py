"""shared driver of the generator-explorer checks C01 and C03"""
from mc import e1, env, gen, pool

SEEDS = ["SIR", "BD", "ONE", "MIX", "SEIRBD", "UNUSED"]


def gather(tier, seed=0, slice_mod=6):
    """returns list of (name, def) and bookkeeping.  quick: everything within 1 edit of every
    seed, plus a 1/slice_mod slice (selected by VERIF_SEED) of the 2-edit neighbourhoods of SIR
    and MIX and of the small-scope block; thorough: the complete 2-edit neighbourhoods of all six seeds and the complete block."""
    import zlib
    defs = {}
    nexec = 0
    if tier == "quick":
        plan = [(s, 1, None) for s in SEEDS] + [("SIR", 2, slice_mod), ("MIX", 2, slice_mod)]
    else:
        # (the 3-edit neighbourhood of SIR alone has 129 343 definitions: not feasible together with the variants)
        plan = [("SIR", 2, None), ("MIX", 2, None), ("BD", 2, None), ("ONE", 2, None), ("UNUSED", 2, None), ("SEIRBD", 2, None)]
    for sname, bound, mod in plan:
        ov, _ = gen.seed(gen.seed_values(sname))

        def on_def(o, pts, d, sname=sname, mod=mod):
            k = gen.canon(d)
            if mod is not None and (zlib.crc32(k.encode()) % mod) != (seed % mod):
                return
            defs.setdefault(k, (sname, d))
        nexec += gen.explore(ov, bound, lambda ch: gen.gen_model(ch), on_def)
    out = [("%s#%d" % (s, i), d) for i, (_k, (s, d)) in enumerate(sorted(defs.items()))]
    block = gen.small_block()
    if tier == "quick":
        block = block[seed % 7::7]
    out += [("block#%d" % i, d) for i, d in enumerate(block)]
    return out, nexec, plan, len(block)


def run_family(run, leg):
    env.load_pygom()
    defs, nexec, plan, nblock = gather(run.tier, run.seed)
    jobs = [(n, d, run.seed, (leg,), "lambda") for n, d in defs]
    # Cython back-end on the seeds (quick: two of them)
    cy = []
    for sname in (["SIR", "MIX"] if run.tier == "quick" else gen_seed_names()):
        _, d = gen.seed(gen.seed_values(sname))
        cy.append(("cython:" + sname, d, run.seed, (leg,), "cython"))
    # the same definitions reached from a non-initial state (built without the last process, everything evaluated, last
    # process added): every third definition in the thorough tier, every fourth in the quick tier (selected by VERIF_SEED)
    from mc import build
    grow = [(n + "+grown", d, run.seed, (leg,), "grown") for k, (n, d) in enumerate(defs)
            if build.can_grow(d) and k % (4 if run.tier == "quick" else 3) == run.seed % (4 if run.tier == "quick" else 3)]
    # ... and next to a live, fully evaluated model of the same mathematics declared in the opposite order
    tw = [(n + "+twin", d, run.seed, (leg,), "twin") for k, (n, d) in enumerate(defs)
          if build.can_twin(d) and k % (4 if run.tier == "quick" else 3) == (run.seed + 2) % (4 if run.tier == "quick" else 3)]
    jobs = jobs + grow + tw
    res = pool.pmap(e1.check_def, cy + jobs, chunksize=1)
    nd = 0
    checks = 0
    nontrivial_defs = 0
    for r, j in zip(res, cy + jobs):
        if r["skipped"]:
            run.count("skipped:" + r["skipped"][:60])
            continue
        nd += 1
        checks += r["checks"]
        if r["nontrivial"]:
            nontrivial_defs += 1
        for k in r["features"]:
            run.count("feature:" + k)
        run.count("backend:" + j[4])
        for v in r["viol"]:
            if v["leg"] != leg:
                continue
            sig = {"what": v["what"], "which": v["detail"].get("which"), "backend": j[4]}
            run.violation(sig, {"def": j[1], "name": j[0], "violation": v})
    run.sample({"name": defs[0][0], "def": defs[0][1]})
    run.sample({"name": defs[len(defs) // 2][0], "def": defs[len(defs) // 2][1]})
    return defs, nd, checks, nontrivial_defs, nexec, plan, nblock


def gen_seed_names():
    return SEEDS
