"""C14 — loss kernels are the negative log-likelihoods they are named after."""
import itertools
import math
import sys

import numpy as np
import sympy as sp

from mc import env, report

Y_CONT = [0.3, 1.0, 2.5, 7.0, 40.0]
Y_COUNT = [0.0, 1.0, 3.0, 12.0]
YHAT = [0.3, 1.0, 2.5, 7.0, 40.0]
SPREADS = [0.5, 1.0, 2.0, 3.7]

y_, m_, s_ = sp.symbols("y m s", positive=True)
FORMS = {
    # minus log density as a function of observation y, prediction m and spread s
    "Normal": sp.log(2 * sp.pi) / 2 + sp.log(s_) + (y_ - m_) ** 2 / (2 * s_ ** 2),
    "Poisson": -(y_ * sp.log(m_) - m_ - sp.loggamma(y_ + 1)),
    "Gamma": -(-sp.loggamma(s_) + (s_ - 1) * sp.log(y_) - s_ * sp.log(m_ / s_) - s_ * y_ / m_),
    "NegBinom": -(sp.loggamma(s_ + y_) - sp.loggamma(s_) - sp.loggamma(y_ + 1) + s_ * sp.log(s_ / (s_ + m_)) + y_ * sp.log(m_ / (s_ + m_))),
    "Square": (y_ - m_) ** 2,
}
D1 = {k: sp.diff(v, m_) for k, v in FORMS.items()}
D2 = {k: sp.diff(v, m_, 2) for k, v in FORMS.items()}


def evalf(expr, y, m, s):
    if y == 0:
        # x*log(m) with x=0 is 0; sympy handles 0*log fine after substitution
        pass
    return float(expr.evalf(30, subs={y_: sp.Float(y, 30) if y else sp.Integer(0), m_: sp.Float(m, 30), s_: sp.Float(s, 30)}))


def close(a, b, tol=1e-10):
    return abs(a - b) <= tol * (1.0 + abs(b))


def main(argv=None):
    run = report.Run("C14", "exploration")
    env.load_pygom()
    from pygom.loss import loss_type as lt
    quick = run.tier == "quick"
    ncase = 0
    nontriv = 0
    classes = {"Normal": lt.Normal, "Poisson": lt.Poisson, "Gamma": lt.Gamma, "NegBinom": lt.NegBinom, "Square": lt.Square}
    spread_kw = {"Normal": "sigma", "Gamma": "shape", "NegBinom": "k"}
    rnd = np.random.RandomState(4000 + run.seed)
    extra = [round(float(v), 3) for v in rnd.uniform(0.2, 30.0, size=2)]
    # three blocks per class: the ordinary grid; the same with INTEGER-typed observation arrays (whole-number observations,
    # non-whole spreads); a large regime (counts and dispersion in the hundreds / thousands, where naive formulas overflow)
    big_y = {"Poisson": [150.0, 600.0, 2000.0], "NegBinom": [150.0, 600.0, 2000.0], "Normal": [1.0e3, 2.5e5], "Gamma": [1.0e3, 2.5e5], "Square": [1.0e3, 2.5e5]}
    big_m = {"Poisson": [180.0, 650.0, 2100.0], "NegBinom": [180.0, 650.0, 2100.0], "Normal": [1.1e3, 2.4e5], "Gamma": [1.1e3, 2.4e5], "Square": [1.1e3, 2.4e5]}
    big_s = {"NegBinom": [300.5, 600.0, 5000.0], "Normal": [50.5, 3000.0], "Gamma": [45.5, 300.0]}
    blocks = []
    for cname in classes:
        ys = Y_COUNT if cname in ("Poisson", "NegBinom") else Y_CONT + extra[:1]
        blocks.append((cname, ys, YHAT + extra[1:], SPREADS, float, "grid"))
        blocks.append((cname, [v for v in ys if float(v).is_integer()], YHAT, SPREADS, int, "integer-typed-y"))
        blocks.append((cname, big_y[cname], big_m[cname], big_s.get(cname, SPREADS), float, "large"))
    for cname, ys, yhats, spreads_here, ydtype, bname in blocks:
        cls = classes[cname]
        run.count("block:" + bname)
        pairs = [(a, b) for a in ys for b in yhats]
        yv = np.array([p[0] for p in pairs])
        mv = np.array([p[1] for p in pairs])
        n = len(pairs)
        spread_opts = [None]
        if cname in spread_kw:
            SP = spreads_here
            spread_opts = [("default", None)] + [("scalar", s) for s in SP] + \
                          [("per-observation", np.array([SP[i % len(SP)] for i in range(n)])),
                           ("per-observation-column", np.array([SP[(i + 1) % len(SP)] for i in range(n)]).reshape(n, 1))]
        else:
            spread_opts = [("none", None)]
        for (skind, sval) in spread_opts:
            for yshape in ("vector",):
                for mshape in ("vector", "column"):
                    yin = yv.astype(ydtype) if yshape == "vector" else yv.astype(ydtype).reshape(n, 1)
                    min_ = mv.copy() if mshape == "vector" else mv.copy().reshape(n, 1)
                    sin = None if sval is None else (sval.copy() if isinstance(sval, np.ndarray) else sval)
                    sig = {"class": cname, "spread": skind, "y": yshape, "yhat": mshape, "block": bname}
                    case = {"class": cname, "spread": skind if sval is None or isinstance(sval, np.ndarray) else sval,
                            "y_shape": yshape, "yhat_shape": mshape}
                    default = {"Normal": 1.0, "Gamma": 2.0, "NegBinom": 1.0}.get(cname, 1.0)
                    svec = np.full(n, default) if sval is None else (np.asarray(sval, float).ravel() if isinstance(sval, np.ndarray) else np.full(n, float(sval)))
                    try:
                        kw = {} if sval is None else {spread_kw[cname]: sin}
                        obj = cls(yin, **kw)
                    except Exception as e:
                        run.violation(dict(sig, what="constructor-raised"), dict(case, error="%s: %s" % (type(e).__name__, e)))
                        continue
                    want_l = sum(evalf(FORMS[cname], a, b, c) for a, b, c in zip(yv, mv, svec))
                    want_d1 = [evalf(D1[cname], a, b, c) for a, b, c in zip(yv, mv, svec)]
                    want_d2 = [evalf(D2[cname], a, b, c) for a, b, c in zip(yv, mv, svec)]
                    # a multi-step sequence on one object: the kernels must not disturb each other
                    for step in ("loss", "diff_loss", "diff2Loss", "loss", "diff_loss", "diff2Loss"):
                        ncase += 1
                        try:
                            got = getattr(obj, step)(min_.copy())
                        except Exception as e:
                            run.violation(dict(sig, what=step + "-raised"), dict(case, error="%s: %s" % (type(e).__name__, e)))
                            break
                        if step == "loss":
                            if not (np.ndim(got) == 0 and close(float(got), want_l)):
                                run.violation(dict(sig, what="loss-value"), dict(case, got=np.asarray(got).tolist(), want=want_l))
                                break
                        else:
                            g = np.asarray(got, float)
                            want = want_d1 if step == "diff_loss" else want_d2
                            if g.shape not in ((n,), (n, 1)) or not all(close(a, b) for a, b in zip(g.ravel(), want)):
                                run.violation(dict(sig, what=step + "-value"), dict(case, got_shape=list(g.shape), got=g.ravel().tolist()[:8], want=want[:8]))
                                break
                            nontriv += 1
                    if not np.array_equal(np.asarray(yin).ravel(), yv) or (isinstance(sval, np.ndarray) and not np.array_equal(np.asarray(sin).ravel(), np.asarray(sval).ravel())):
                        run.violation(dict(sig, what="caller-arrays-modified"), case)
        # Square with weights: sum of squared weighted residuals
        if cname == "Square":
            for wkind in ("per-observation",):
                w = np.array([0.5 + 0.25 * (i % 5) for i in range(n)])
                for yshape in ("vector",):
                    yin = yv
                    win = w
                    ncase += 1
                    try:
                        obj = cls(yin.copy(), win.copy())
                        got = float(obj.loss(mv.copy()))
                        want = float(np.sum((w * (yv - mv)) ** 2))
                        if not close(got, want):
                            run.violation({"class": "Square", "what": "weighted-loss-value", "w": wkind}, {"got": got, "want": want})
                        nontriv += 1
                    except Exception as e:
                        run.violation({"class": "Square", "what": "weighted-raised", "w": wkind}, {"error": "%s: %s" % (type(e).__name__, e)})
    # two-column predictions (n,2) for every class
    for cname, cls in classes.items():
        ys = Y_COUNT if cname in ("Poisson", "NegBinom") else Y_CONT
        Y2 = np.array([[ys[i % len(ys)], ys[(i + 2) % len(ys)]] for i in range(6)])
        M2 = np.array([[YHAT[(i + 1) % 5], YHAT[(2 * i) % 5]] for i in range(6)])
        for sval in ([None, 3.7, np.array([[SPREADS[(i + j) % 4] for j in range(2)] for i in range(6)])] if cname in spread_kw else [None]):
            default = {"Normal": 1.0, "Gamma": 2.0, "NegBinom": 1.0}.get(cname, 1.0)
            S2 = np.full(Y2.shape, default) if sval is None else (sval if isinstance(sval, np.ndarray) else np.full(Y2.shape, sval))
            ncase += 1
            try:
                kw = {} if sval is None else {spread_kw[cname]: (sval.copy() if isinstance(sval, np.ndarray) else sval)}
                obj = cls(Y2.copy(), **kw)
                got_l = float(obj.loss(M2.copy()))
                got_d = np.asarray(obj.diff_loss(M2.copy()), float)
                got_d2 = np.asarray(obj.diff2Loss(M2.copy()), float)
                want_l = sum(evalf(FORMS[cname], Y2[i, j], M2[i, j], S2[i, j]) for i in range(6) for j in range(2))
                ok = close(got_l, want_l) and got_d.shape == (6, 2) and got_d2.shape == (6, 2)
                ok = ok and all(close(got_d[i, j], evalf(D1[cname], Y2[i, j], M2[i, j], S2[i, j])) and
                                close(got_d2[i, j], evalf(D2[cname], Y2[i, j], M2[i, j], S2[i, j])) for i in range(6) for j in range(2))
                if not ok:
                    run.violation({"class": cname, "what": "two-column-values"}, {"spread": None if sval is None else np.asarray(sval).tolist()})
                nontriv += 1
            except Exception as e:
                run.violation({"class": cname, "what": "two-column-raised"}, {"error": "%s: %s" % (type(e).__name__, e)})
    run.sample({"class": "Gamma", "y": Y_CONT, "yhat": YHAT, "spread": SPREADS})
    run.cov.update({
        "evaluations": ncase, "distinct_nontrivial": nontriv,
        "rule": "5 kernel classes x all (y, yhat) pairs from %s (counts %s) x %s plus 2 seed-dependent values, spread in {default, %s, "
                "per-observation vector, per-observation column}, y and yhat as vector and as single column, (n,2) inputs, weights "
                "for Square; the same with integer-typed observation arrays (whole-number observations) and in a large regime (counts and "
                "dispersion in the hundreds/thousands, continuous values up to 2.5e5); on one object the sequence loss, diff_loss, diff2Loss, loss, diff_loss, diff2Loss is evaluated and each "
                "result compared (1e-10) with minus the log density written independently in sympy (loggamma, log) and its "
                "first/second derivatives w.r.t. the prediction; caller arrays must stay unchanged" % (Y_CONT, Y_COUNT, YHAT, SPREADS),
        "exhaustive": True,
    })
    run.assumptions += ["the reference densities are the textbook mean-parameterised forms (Normal(mean, sigma), Poisson(mean), Gamma(mean, shape), NB2(mean, k))",
                        "diff_loss/diff2Loss are judged without weights, as the property states"]
    return run.finish(exhaustive=True)


if __name__ == "__main__":
    sys.exit(main())
