"""C09 — parameter values are bound to the parameters they were given for."""
import itertools
import sys

import numpy as np
import sympy

from mc import env, pool, report

PARAMS = ["mu", "beta", "gamma"]      # deliberately not in alphabetical order
PRIMES = [2, 3, 5, 7, 11, 13, 17, 19, 23, 29, 31, 37, 41, 43, 47, 53, 59, 61, 67, 71, 73, 79, 83, 89, 97]
X = [1.5, 0.5, 2.5]


def make_model():
    pg = env.load_pygom()
    from pygom.model import ode_utils
    T = pg.Transition
    m = pg.SimulateOde(["S", "I", "R"], list(PARAMS),
                       event=[pg.Event(rate="S", transition_list=[T(origin="S", destination="I", transition_type="T", magnitude="mu")])],
                       ode=[T(origin="S", equation="beta**2 + 0*S", transition_type="ODE"),
                            T(origin="I", equation="2*gamma**2*I", transition_type="ODE"),
                            T(origin="R", equation="3*mu**2 + R", transition_type="ODE")])
    m._SC = ode_utils.compileCode(backend="lambda")
    return m


def forms():
    """(name, kind) with kind in accepted/rejected; built lazily by build_arg"""
    out = [("list", "ok"), ("tuple", "ok"), ("array", "ok"), ("column", "ok")]
    for perm in itertools.permutations(range(3)):
        out.append(("pairs:%s" % "".join(map(str, perm)), "ok"))
        out.append(("pairs_tuple:%s" % "".join(map(str, perm)), "ok"))
    for r in (1, 2, 3):
        for sub in itertools.combinations(range(3), r):
            for keykind in ("str", "modelsym", "plainsym"):
                out.append(("dict:%s:%s" % (keykind, "".join(map(str, sub))), "ok"))
    out += [("pairs_unknown", "bad"), ("dict_unknown", "bad"), ("short", "bad"), ("long", "bad"),
            ("dict_too_many", "bad"), ("array_long", "bad"), ("array_3x2", "bad"), ("array_3x3", "bad"), ("array_2x3", "bad")]
    return out


def build_arg(m, form, vals):
    """vals: dict name -> value to be supplied by this operation (all three names)"""
    v = [vals[p] for p in PARAMS]
    if form == "list":
        return list(v), dict(vals)
    if form == "tuple":
        return tuple(v), dict(vals)
    if form == "array":
        return np.array(v, float), dict(vals)
    if form == "column":
        return np.array(v, float).reshape(3, 1), dict(vals)
    if form.startswith("pairs:") or form.startswith("pairs_tuple:"):
        perm = [int(c) for c in form.split(":")[1]]
        pairs = [(PARAMS[i], vals[PARAMS[i]]) for i in perm]
        return (tuple(pairs) if form.startswith("pairs_tuple") else pairs), dict(vals)
    if form.startswith("dict:"):
        _, keykind, sub = form.split(":")
        names = [PARAMS[int(c)] for c in sub]
        d = {}
        for n in names:
            if keykind == "str":
                k = n
            elif keykind == "modelsym":
                k = m._paramDict[n]
            else:
                k = sympy.Symbol(n)
            d[k] = vals[n]
        return d, {n: vals[n] for n in names}
    if form == "pairs_unknown":
        return [("beta", vals["beta"]), ("zeta", 99.0), ("mu", vals["mu"])], None
    if form == "dict_unknown":
        return {"zeta": 99.0}, None
    if form == "short":
        return [vals["beta"], vals["gamma"]], None
    if form == "long":
        return [vals["beta"], vals["gamma"], vals["mu"], 99.0], None
    if form == "array_long":
        return np.array([vals["beta"], vals["gamma"], vals["mu"], 99.0]), None
    if form in ("array_3x2", "array_3x3", "array_2x3"):
        # first dimension (or total) right for a careless length test, number of values wrong
        r, c = int(form[6]), int(form[8])
        return np.array([[vals[PARAMS[(i + j) % 3]] + j for j in range(c)] for i in range(r)], float), None
    if form == "dict_too_many":
        return {"beta": 1.0, "gamma": 2.0, "mu": 3.0, "zeta": 99.0}, None
    raise ValueError(form)


def expected(ref):
    """per parameter name: (value of an ode component, value of a grad entry, value of a vMat entry) that reveal it"""
    b, g, mu = ref.get("beta"), ref.get("gamma"), ref.get("mu")
    out = {}
    if mu is not None:
        out["mu"] = {"ode": (2, 3 * mu ** 2 + X[2]), "grad": ((2, PARAMS.index("mu")), 6 * mu), "vMat": ((1, 0), mu)}
        if b is not None:
            out["beta"] = {"ode": (0, b ** 2 - mu * X[0]), "grad": ((0, PARAMS.index("beta")), 2 * b)}
        if g is not None:
            out["gamma"] = {"ode": (1, 2 * g ** 2 * X[1] + mu * X[0]), "grad": ((1, PARAMS.index("gamma")), 4 * g * X[1])}
    else:
        if b is not None:
            out["beta"] = {"grad": ((0, PARAMS.index("beta")), 2 * b)}
        if g is not None:
            out["gamma"] = {"grad": ((1, PARAMS.index("gamma")), 4 * g * X[1])}
    return out


def run_seq(seq):
    out = {"seq": seq, "viol": [], "compared": 0}
    m = make_model()
    ref = {}
    for k, form in enumerate(seq):
        vals = {p: float(PRIMES[(3 * k + i) % len(PRIMES)]) + 0.5 * k for i, p in enumerate(PARAMS)}
        arg, update = build_arg(m, form, vals)
        try:
            m.parameters = arg
            raised = None
        except Exception as e:
            raised = "%s: %s" % (type(e).__name__, str(e)[:80])
        if update is None:
            if raised is None:
                out["viol"].append({"what": "bad-input-accepted", "step": k, "form": form})
                return out
        else:
            if raised is not None:
                out["viol"].append({"what": "accepted-form-rejected", "step": k, "form": form, "error": raised})
                return out
            if form.split(":")[0] in ("list", "tuple", "array", "column", "pairs", "pairs_tuple"):
                ref = dict(update)          # a full assignment
            else:
                ref.update(update)          # partial update keeps the rest
        if not ref:
            continue
        try:
            got = {"ode": np.asarray(m.ode(list(X), 0.3), float).ravel(),
                   "grad": np.asarray(m.grad(list(X), 0.3), float).reshape(3, 3),
                   "vMat": np.asarray(m.vMat(list(X), 0.3), float).reshape(3, 1)}
        except Exception as e:
            if len(ref) == 3:
                out["viol"].append({"what": "evaluation-raised", "step": k, "form": form, "error": "%s: %s" % (type(e).__name__, e)})
                return out
            continue
        for pn, exp in expected(ref).items():
            for which, (idx, want) in exp.items():
                out["compared"] += 1
                g_ = got[which][idx]
                if abs(g_ - want) > 1e-9 * (1 + abs(want)):
                    out["viol"].append({"what": "value-bound-to-wrong-name", "step": k, "form": form, "param": pn, "evaluator": which,
                                        "got": float(g_), "want": want, "reference": ref})
                    return out
    return out


GROW_A2 = ["new_only_str", "new_only_modelsym", "new_only_plainsym", "new_plus_one", "list4", "array4", "pairs4_rev", "dict_all4", "dict_old_only"]


def run_grow(args):
    """assignment -> [evaluate] -> the parameter list is extended by one name -> a second assignment -> evaluate.
    Values given before the extension must survive a partial update that mentions only the new name."""
    a1, evaluate_between, a2 = args
    out = {"seq": (a1, "eval" if evaluate_between else "-", "grow", a2), "viol": [], "compared": 0}
    m = make_model()
    vals = {p: float(PRIMES[i]) for i, p in enumerate(PARAMS)}
    arg, update = build_arg(m, a1, vals)
    m.parameters = arg
    ref = dict(update)
    if evaluate_between:
        m.ode(list(X), 0.3)
        m.grad(list(X), 0.3)
    m.param_list = ["nu"]
    nu, b2 = 101.0, 103.0
    names4 = PARAMS + ["nu"]
    new = dict(ref, nu=nu)
    if a2 == "new_only_str":
        arg2, upd = {"nu": nu}, {"nu": nu}
    elif a2 == "new_only_modelsym":
        arg2, upd = {m._paramDict["nu"]: nu}, {"nu": nu}
    elif a2 == "new_only_plainsym":
        arg2, upd = {sympy.Symbol("nu"): nu}, {"nu": nu}
    elif a2 == "new_plus_one":
        arg2, upd = {"nu": nu, "beta": b2}, {"nu": nu, "beta": b2}
    elif a2 == "list4":
        v4 = {p: float(PRIMES[5 + i]) for i, p in enumerate(names4)}
        arg2, upd = [v4[p] for p in names4], v4
    elif a2 == "array4":
        v4 = {p: float(PRIMES[9 + i]) for i, p in enumerate(names4)}
        arg2, upd = np.array([v4[p] for p in names4]), v4
    elif a2 == "pairs4_rev":
        v4 = {p: float(PRIMES[13 + i]) for i, p in enumerate(names4)}
        arg2, upd = [(p, v4[p]) for p in reversed(names4)], v4
    elif a2 == "dict_all4":
        v4 = {p: float(PRIMES[17 + i]) for i, p in enumerate(names4)}
        arg2, upd = dict(v4), v4
    else:                                    # dict_old_only: the new name stays without a value
        arg2, upd = {"gamma": b2}, {"gamma": b2}
    form = "grow:" + a2
    try:
        m.parameters = arg2
    except Exception as e:
        out["viol"].append({"what": "accepted-form-rejected", "step": 2, "form": form, "error": "%s: %s" % (type(e).__name__, str(e)[:80])})
        return out
    ref.update(upd)
    if "nu" not in ref:
        return out          # a declared parameter without a value: evaluation is not defined
    try:
        got = {"ode": np.asarray(m.ode(list(X), 0.3), float).ravel(), "grad": np.asarray(m.grad(list(X), 0.3), float).reshape(3, 4),
               "vMat": np.asarray(m.vMat(list(X), 0.3), float).reshape(3, 1)}
    except Exception as e:
        out["viol"].append({"what": "evaluation-raised", "step": 2, "form": form, "error": "%s: %s" % (type(e).__name__, e)})
        return out
    for pn, exp in expected(ref).items():
        for which, (idx, want) in exp.items():
            out["compared"] += 1
            g_ = got[which][idx]
            if abs(g_ - want) > 1e-9 * (1 + abs(want)):
                out["viol"].append({"what": "value-bound-to-wrong-name", "step": 2, "form": form, "param": pn, "evaluator": which,
                                    "got": float(g_), "want": want, "reference": ref})
                return out
    if not np.all(got["grad"][:, 3] == 0):
        out["viol"].append({"what": "value-bound-to-wrong-name", "step": 2, "form": form, "param": "nu", "evaluator": "grad", "got": got["grad"][:, 3].tolist(), "want": 0.0})
    return out


def main(argv=None):
    run = report.Run("C09", "model_checking")
    env.load_pygom()
    quick = run.tier == "quick"
    F = forms()
    names = [f for f, _ in F]
    depth = 2 if quick else 3
    seqs = [tuple(s) for d in range(1, depth + 1) for s in itertools.product(names, repeat=d)] if quick else \
        [tuple(s) for s in itertools.product(names, repeat=2)] + \
        [tuple(s) for s in itertools.product(names, names[::2], names[1::2])] + \
        [tuple(s) for s in itertools.product(names[1::2], names, names[::2])]
    if quick:
        # depth 3 on the structurally different forms (one representative per family)
        reps = ["list", "column", "pairs:120", "pairs_tuple:201", "dict:str:0", "dict:plainsym:1", "dict:modelsym:02",
                "dict:str:12", "dict:plainsym:012", "pairs_unknown", "dict_unknown", "long"]
        seqs += [tuple(s) for s in itertools.product(reps, repeat=3)]
    res = pool.pmap(run_seq, seqs)
    gjobs = [(a1, ev, a2) for a1 in ("list", "column", "pairs:201", "pairs_tuple:120", "dict:str:012", "dict:modelsym:012", "dict:plainsym:012")
             for ev in (False, True) for a2 in GROW_A2]
    gres = pool.pmap(run_grow, gjobs)
    run.count("grown-parameter-list histories", len(gjobs))
    res = res + gres
    compared = sum(r["compared"] for r in res)
    for r in res:
        for v in r["viol"]:
            run.violation({"what": v["what"], "form": v["form"].split(":")[0] + (":" + v["form"].split(":")[1] if v["form"].startswith("dict") else "")},
                          {"sequence": list(r["seq"]), "violation": v})
    run.sample({"sequence": list(seqs[0])})
    run.sample({"sequence": list(seqs[len(seqs) // 3])})
    run.sample({"sequence": list(seqs[-1])})
    run.cov.update({
        "evaluations": len(seqs) + len(gjobs), "distinct_nontrivial": sum(1 for r in res if r["compared"]),
        "rule": "all sequences of <= %d assignments over %d input forms (list, tuple, array, column array, list/tuple of pairs in all 6 "
                "orders, dict keyed by str / the model's symbol / a plain sympy.Symbol for all 7 non-empty subsets, and 9 rejected "
                "forms)%s on a 3-parameter model whose right-hand side makes each parameter separately observable; after every "
                "assignment ode and grad are evaluated on the same object and compared with a dict updated by the obvious rule; "
                "values are distinct per position. grown-list leg: a full assignment (7 forms) -> [evaluate] -> param_list extended by one name -> "
                "a second assignment (new name only by str / model symbol / plain Symbol, new name plus one old, list, array, pairs reversed, "
                "dict of all four, an old name only) -> evaluate. distinct_nontrivial = sequences in which at least one component was compared" % (
                    depth, len(names), " plus all length-3 sequences over 12 representative forms" if quick else " (length 3 over two interleaved halves of the alphabet)"),
        "states": len(seqs) + len(gjobs), "transitions": sum(len(s) for s in seqs) + 4 * len(gjobs), "traces_validated_against_impl": len(seqs) + len(gjobs),
        "component_comparisons": compared,
    })
    run.assumptions += ["a partial update on a model that never had values leaves the unmentioned parameters unspecified (not judged)",
                        "rejected dict forms contain only the offending key (what a rejected dict with valid names does to earlier values is not specified by the property)"]
    rc = run.finish(exhaustive=True)
    pool.close()
    return rc


if __name__ == "__main__":
    sys.exit(main())
