"""C08 — evaluators never go stale after a model is modified."""
import itertools
import sys

import numpy as np

from mc import env, hist, pool, report


def run_history(args):
    """Replay one history on a fresh model.  Every evaluation in it is compared with the same
    evaluator on a fresh object that received only the mutators of the prefix (no interleaved
    evaluation).  Returns violations and the number of comparisons."""
    ops, start, eval_names = args
    out = {"ops": ops, "viol": [], "compared": 0, "ill": 0, "values": 0}
    m = hist.base_model()
    other = hist.other_model()
    if start == "compiled":
        for e in hist.EVALUATORS:
            try:
                getattr(m, e)(list(hist.X), hist.T)
            except Exception:
                pass
    done = []
    for k, op in enumerate(ops):
        try:
            r = hist.apply(m, op, done, other)
        except Exception as e:
            out["viol"].append({"what": "mutator-raised", "op": op, "prefix": list(done), "error": "%s: %s" % (type(e).__name__, e)})
            return out
        if op.startswith("eval:"):
            muts = tuple(o for o in done if not o.startswith("eval:") and o != "other_eval")
            want = fresh_value(muts, op[5:])
            out["compared"] += 1
            if r[0] == "raised":
                out["ill"] += 1
            else:
                out["values"] += 1
            if not hist.same(r, want):
                out["viol"].append({"what": "stale-or-different", "evaluator": op[5:], "prefix": list(done), "start": start,
                                    "got": (r[0], r[1].tolist() if r[0] == "value" else r[1]),
                                    "fresh": (want[0], want[1].tolist() if want[0] == "value" else want[1])})
                return out
        done.append(op)
    return out


_FRESH = {}


def fresh_value(muts, name):
    key = (muts, name)
    if key not in _FRESH:
        m = hist.base_model()
        done = []
        for op in muts:
            hist.apply(m, op, done, None)
            done.append(op)
        _FRESH[key] = hist.apply(m, "eval:" + name, done, None)
    return _FRESH[key]


def histories(depth, evals, muts):
    alphabet = list(muts) + ["eval:" + e for e in evals] + ["other_eval"]
    out = []

    def rec(h):
        if len(h) == depth:
            out.append(tuple(h))
            return
        ext = False
        for op in alphabet:
            if not hist.enabled(op, h):
                continue
            # a history is only interesting if it can still end in an evaluation
            rec(h + [op])
            ext = True
        if not ext:
            out.append(tuple(h))
    rec([])
    # keep maximal histories that contain at least one evaluation after a mutator or start
    return [h for h in out if any(o.startswith("eval:") for o in h)]


def main(argv=None):
    run = report.Run("C08", "model_checking")
    env.load_pygom()
    quick = run.tier == "quick"
    depth = 3 if quick else 4
    evals = hist.EVALUATORS
    muts = hist.MUTATORS
    if not quick:
        # depth 4 with the full alphabet is 25^4; keep all mutators, five representative
        # evaluators as *operations* at depth 4 and the full alphabet at depth 3
        evals4 = ["ode", "jacobian", "grad", "pureOdeVector", "transitionVar"]
    jobs = []
    hs = histories(3, evals, muts)
    jobs += [(h, "fresh", None) for h in hs]
    if quick:
        # from the all-compiled start: [mutator, anything, evaluation]
        jobs += [(h, "compiled", None) for h in hs if not h[0].startswith("eval:") and h[0] != "other_eval" and h[2].startswith("eval:")]
    else:
        jobs += [(h, "compiled", None) for h in hs]
    # the two-phase pattern [mutator, evaluation, mutator, evaluation]
    ev = ["eval:" + e for e in evals]
    for m1 in muts:
        for e1 in ev:
            for m2 in muts:
                if not hist.enabled(m1, []) or not hist.enabled(m2, [m1, e1]):
                    continue
                for e2 in ev:
                    jobs.append(((m1, e1, m2, e2), "fresh", None))
    if not quick:
        hs4 = histories(4, evals4, muts)
        jobs += [(h, "fresh", None) for h in hs4]
    res = pool.pmap(run_history, jobs)
    compared = sum(r["compared"] for r in res)
    ill = sum(r["ill"] for r in res)
    values = sum(r["values"] for r in res)
    states = set()
    for r, j in zip(res, jobs):
        states.add((j[1],) + tuple(j[0]))
        for v in r["viol"]:
            sig = {"what": v["what"], "evaluator": v.get("evaluator"), "last_mutator": next((o for o in reversed(v.get("prefix", [])) if not o.startswith("eval:") and o != "other_eval"), None)}
            run.violation(sig, {"history": list(j[0]), "start": j[1], "violation": v})
    run.sample({"start": jobs[0][1], "history": list(jobs[0][0])})
    run.sample({"start": jobs[len(jobs) // 2][1], "history": list(jobs[len(jobs) // 2][0])})
    run.sample({"start": jobs[-1][1], "history": list(jobs[-1][0])})
    run.cov.update({
        "evaluations": len(jobs), "distinct_nontrivial": sum(1 for r in res if r["values"]), "value_comparisons": values,
        "rule": "all histories of length %d over the alphabet {%d mutators} U {evaluate each of %d evaluators} U {evaluate another "
                "live model}, from a fresh SIR model and from one whose evaluators were all compiled once%s; every evaluation "
                "inside a history is compared with the same evaluator on a fresh object that received only the mutators of the "
                "prefix. distinct_nontrivial = distinct histories with at least one comparison in a well-defined state (a value, not "
                "an exception, on both sides)" % (
                    3, len(muts), len(evals), ("; from the compiled start only [mutator, any, evaluation]" if quick else "; plus all of length 4 with five evaluators as operations") + "; plus every two-phase history [mutator, evaluation, mutator, evaluation]"),
        "states": len(states), "transitions": sum(len(j[0]) for j in jobs), "traces_validated_against_impl": len(jobs),
        "comparisons": compared, "comparisons_in_ill_defined_states": ill, "depth_completed": depth,
    })
    run.assumptions += ["a history is applied to a fresh real object each time; nothing is pruned on an abstraction of the state",
                        "in states where a declared parameter has no value both sides must fail alike; which exception is raised is not judged"]
    rc = run.finish(exhaustive=True)
    pool.close()
    return rc


if __name__ == "__main__":
    sys.exit(main())
