"""C01 — a model definition is assembled into exactly the equations it describes."""
import sys

from mc import pool, report
from checks import _e1fam


def main(argv=None):
    run = report.Run("C01", "exploration")
    defs, nd, checks, nt, nexec, plan, nblock = _e1fam.run_family(run, "C01")
    run.cov.update({
        "evaluations": nd, "distinct_nontrivial": nt,
        "rule": "every definition produced by the model grammar within the stated number of named-choice edits of each seed %s "
                "plus %d definitions of the complete small-scope block; for each: get_ode_eqn / get_StateChangeMatrix / "
                "get_EventRateVector / get_pureOdeVector equal the reference symbolically, ode == V*a + explicit terms on the "
                "library's own objects, the reactant matrix is the support pattern, and ode / vMat / eventRateVector / "
                "pureOdeVector equal the reference (mpmath) at 4 points on one model instance (parameters re-assigned "
                "between points). distinct_nontrivial = definitions with a non-zero numeric value compared" % (plan, nblock),
        "numeric_comparisons": checks, "generator_executions": nexec, "definitions": nd,
    })
    run.assumptions += ["the reference meaning of a definition is V*a + explicit terms computed by sympy from the definition alone",
                        "numeric agreement is claimed on the evaluation grid only; the symbolic comparison covers all points where sympy decides it"]
    rc = run.finish(exhaustive=(run.tier == "thorough"))
    pool.close()
    return rc


if __name__ == "__main__":
    sys.exit(main())
