"""C03 — jacobian, gradient and higher derivative functions are the true derivatives."""
import sys

from mc import pool, report
from checks import _e1fam


def main(argv=None):
    run = report.Run("C03", "exploration")
    defs, nd, checks, nt, nexec, plan, nblock = _e1fam.run_family(run, "C03")
    run.cov.update({
        "evaluations": nd, "distinct_nontrivial": nt,
        "rule": "the C01 enumeration (seeds/bounds %s + %d small-scope definitions); for each definition jacobian, grad, "
                "diff_jacobian (stacked per equation), grad_jacobian (row k*d+i), transitionJacobian, transitionMean, "
                "transitionVar are compared with sympy.diff of the reference right-hand side / rate vector, symbolically "
                "(get_*_eqn) and numerically at 4 points. distinct_nontrivial = definitions with a non-zero derivative value compared" % (plan, nblock),
        "numeric_comparisons": checks, "generator_executions": nexec, "definitions": nd,
    })
    run.assumptions += ["sympy differentiation of the reference right-hand side is the oracle",
                        "points are away from singularities of the rates (positive states and parameters)"]
    rc = run.finish(exhaustive=(run.tier == "thorough"))
    pool.close()
    return rc


if __name__ == "__main__":
    sys.exit(main())
