"""C13 — sensitivity systems are the variational equations of the model."""
import itertools
import sys

import numpy as np
import sympy as sp

from mc import build, env, points, pool, ref, report

NAMES = ["S", "I", "R"]
PNAMES = ["beta", "gamma", "mu"]


def shape_def(d, p):
    """a smooth nonlinear model with d states and p parameters in which every state and
    parameter matters and nothing is symmetric"""
    st, pa = NAMES[:d], PNAMES[:p]
    events = []
    odes = []
    for i in range(max(d, p, 2)):
        x = st[i % d]
        y = st[(i + 1) % d]
        coef = pa[i % p] if p else str(0.3 + 0.2 * i)
        if d >= 2:
            events.append({"rate": "%s*%s*%s/(1+%s)" % (coef, x, y, st[(i + 2) % d]) if i % 2 == 0 else "%s*%s**2" % (coef, x),
                           "trans": [("T", x, y, "1")] if i % 3 else [("T", x, y, "2"), ("B", None, x, "1")]})
        else:
            events.append({"rate": "%s*%s**2/(1+%s)" % (coef, x, x), "trans": [("D", x, None, "1")] if i % 2 == 0 else [("B", None, x, "2")]})
    odes.append((st[-1], "-%s*%s**2 + %s" % (pa[-1] if p else "0.4", st[-1], "0.7")))
    return {"states": st, "state_style": "list", "limits": [None] * d, "params": pa, "param_style": "list",
            "derived": [], "events": events, "odes": odes}


def aug_reference(R, with_iv, by_state):
    """symbolic augmented right-hand side and its jacobian w.r.t. the augmented state"""
    d, p = len(R.xs), len(R.ps)
    J = R.jacobian()
    G = R.grad()
    S = sp.Matrix(d, p, lambda i, j: sp.Symbol("s_%d_%d" % (i, j), real=True)) if p else sp.zeros(d, 0)
    S0 = sp.Matrix(d, d, lambda i, j: sp.Symbol("z_%d_%d" % (i, j), real=True))
    A = J * S + G if p else sp.zeros(d, 0)
    if by_state:
        svars = [S[i, j] for i in range(d) for j in range(p)]
        srhs = [A[i, j] for i in range(d) for j in range(p)]
    else:
        svars = [S[i, j] for j in range(p) for i in range(d)]
        srhs = [A[i, j] for j in range(p) for i in range(d)]
    varz = list(R.xs) + svars
    rhs = list(R.f) + srhs
    if with_iv:
        Bm = J * S0
        varz += [S0[i, j] for j in range(d) for i in range(d)]
        rhs += [Bm[i, j] for j in range(d) for i in range(d)]
    rhs = sp.Matrix(rhs)
    return varz, rhs, rhs.jacobian(varz)


def job(args):
    name, d, seed, integrate = args
    out = {"name": name, "viol": [], "checks": 0, "nontrivial": 0}
    R = ref.Ref(d)
    ns, npar = len(d["states"]), len(d["params"])
    try:
        m, _ = build.build(d)
    except Exception as e:
        out["viol"].append({"what": "construction-raised", "which": "model", "detail": {"error": "%s: %s" % (type(e).__name__, e)}})
        return out
    pts = points.points(ns, max(npar, 1), seed)[:3]
    rnd = np.random.RandomState(17 + ns * 10 + npar)
    import math

    def numeric(M, varz, vals, x, t, th):
        sub = dict(zip(varz, vals))
        sub[R.t] = t
        sub.update(dict(zip(R.ps, th)))
        return np.array([[float(M[i, j].evalf(25, subs=sub)) if M[i, j] != 0 else 0.0 for j in range(M.cols)] for i in range(M.rows)])

    configs = []
    if npar:
        configs += [("ode_and_sensitivity", False, False), ("ode_and_sensitivity", True, False)]
    configs += [("ode_and_sensitivityIV", False, True)]
    for (fn, by_state, with_iv) in configs:
        varz, rhs, jac = aug_reference(R, with_iv, by_state)
        # the first point is visited three times with different parameter values (same state, time and sensitivities:
        # anything remembered per point across a parameter change would show), then the other points
        pts_ext = [pts[0], (pts[0][0], pts[0][1], pts[1][2]), (pts[0][0], pts[0][1], pts[2][2]), pts[1], pts[2]]
        sens_fixed = np.round(rnd.uniform(-1.5, 1.5, size=len(varz) - ns), 3)
        for kpt, (x, t, th0) in enumerate(pts_ext):
            th = th0[:npar]
            sens = sens_fixed if kpt < 3 else np.round(rnd.uniform(-1.5, 1.5, size=len(varz) - ns), 3)
            sp_vec = np.array(list(x) + list(sens))
            if kpt == 3:
                # a whole-number point given with integer dtype (sensitivities 0/1 as at an initial condition)
                x = [int(round(v)) + 1 for v in x]
                sens = (np.arange(len(varz) - ns) % 2).astype(int)
                sp_vec = np.array(list(x) + list(sens), dtype=int)
            try:
                if npar:
                    m.parameters = list(th)
                # one array is handed to the right-hand side, to the Jacobian and to the right-hand side again, the way an
                # implicit integrator hands over its working vector; it must come back untouched
                arr = sp_vec.copy()
                if fn == "ode_and_sensitivity":
                    got = np.asarray(m.ode_and_sensitivity(arr, t, by_state), float)
                    gotJ = np.asarray(m.ode_and_sensitivity_jacobian(arr, t, by_state), float)
                    got_again = np.asarray(m.ode_and_sensitivity(arr, t, by_state), float)
                else:
                    got = np.asarray(m.ode_and_sensitivityIV(arr, t), float)
                    gotJ = np.asarray(m.ode_and_sensitivityIV_jacobian(arr, t), float)
                    got_again = np.asarray(m.ode_and_sensitivityIV(arr, t), float)
                # the time-first wrappers (the form scipy's ode / solve_ivp call) are the same functions of the same point
                if fn == "ode_and_sensitivity":
                    gotT = np.asarray(m.ode_and_sensitivity_T(t, sp_vec.copy(), by_state), float)
                    gotJT = np.asarray(m.ode_and_sensitivity_jacobian_T(t, sp_vec.copy(), by_state), float)
                else:
                    gotT = np.asarray(m.ode_and_sensitivityIV_T(t, sp_vec.copy()), float)
                    gotJT = np.asarray(m.ode_and_sensitivityIV_jacobian_T(t, sp_vec.copy()), float)
                out["checks"] += 2
                if gotT.shape != got.shape or not np.array_equal(gotT, got) or gotJT.shape != gotJ.shape or not np.array_equal(gotJT, gotJ):
                    out["viol"].append({"what": "time-first-wrapper-differs", "which": fn + "_T", "by_state": by_state,
                                        "detail": {"shape": [ns, npar], "point": [x, t, th], "rhs_T": gotT.tolist(), "rhs": got.tolist()}})
                    break
                if not np.array_equal(arr, sp_vec) or not np.array_equal(got, got_again):
                    out["viol"].append({"what": "caller-vector-modified", "which": fn, "by_state": by_state,
                                        "detail": {"shape": [ns, npar], "point": [x, t, th], "before": sp_vec.tolist(), "after": arr.tolist()}})
                    break
            except Exception as e:
                out["viol"].append({"what": "raised", "which": fn, "by_state": by_state,
                                    "detail": {"shape": [ns, npar], "error": "%s: %s" % (type(e).__name__, e), "point": [x, t, th]}})
                break
            want = numeric(rhs, varz, sp_vec, x, t, th).ravel()
            wantJ = numeric(jac, varz, sp_vec, x, t, th)
            out["checks"] += 2
            if got.shape != want.shape or not np.allclose(got, want, rtol=1e-9, atol=1e-11):
                out["viol"].append({"what": "augmented-rhs", "which": fn, "by_state": by_state,
                                    "detail": {"shape": [ns, npar], "point": [x, t, th], "got": got.tolist(), "want": want.tolist()}})
                break
            if gotJ.shape != wantJ.shape or not np.allclose(gotJ, wantJ, rtol=1e-9, atol=1e-11):
                bad = np.argwhere(~np.isclose(gotJ, wantJ, rtol=1e-9, atol=1e-11)) if gotJ.shape == wantJ.shape else []
                out["viol"].append({"what": "augmented-jacobian", "which": fn + "_jacobian", "by_state": by_state,
                                    "detail": {"shape": [ns, npar], "point": [x, t, th], "got_shape": list(gotJ.shape), "want_shape": list(wantJ.shape),
                                               "first_bad_entries": [b.tolist() for b in bad[:5]]}})
                break
            if np.any(np.abs(wantJ - wantJ.T) > 1e-9):
                out["nontrivial"] += 1
    # (c) integrating the systems yields dx/dtheta and dx/dx0
    if integrate and not out["viol"]:
        from pygom.model import ode_utils
        from scipy.integrate import solve_ivp
        x0, _t, th0 = pts[0]
        th = th0[:npar]
        if npar:
            m.parameters = list(th)
        times = np.array([0.4, 0.9, 1.5])
        varz, rhs, jac = aug_reference(R, True, False)
        ff = sp.lambdify(varz + [R.t] + list(R.ps), list(rhs), modules="math")
        init = np.concatenate([x0, np.zeros(ns * npar), np.eye(ns).flatten("F")])
        sol = solve_ivp(lambda t, y: ff(*(list(y) + [t] + list(th))), (0.0, 1.5 + 1e-12), init, method="DOP853", rtol=1e-12, atol=1e-14, t_eval=times)
        want = sol.y.T
        for meth in (None, "dopri5", "vode"):
            try:
                got = ode_utils.integrateFuncJac(m.ode_and_sensitivityIV_T, m.ode_and_sensitivityIV_jacobian_T, init.copy(), 0.0, times, method=meth)
                out["checks"] += 1
                if got.shape != want.shape or not np.allclose(got, want, rtol=1e-6, atol=1e-7):
                    out["viol"].append({"what": "integrated-sensitivities", "which": "ode_and_sensitivityIV", "by_state": False,
                                        "detail": {"shape": [ns, npar], "method": meth, "maxerr": float(np.max(np.abs(got - want))) if got.shape == want.shape else None}})
                elif npar:
                    got2 = ode_utils.integrateFuncJac(m.ode_and_sensitivity_T, m.ode_and_sensitivity_jacobian_T, init[:ns * (npar + 1)].copy(), 0.0, times, method=meth)
                    if not np.allclose(got2, want[:, :ns * (npar + 1)], rtol=1e-6, atol=1e-7):
                        out["viol"].append({"what": "integrated-sensitivities", "which": "ode_and_sensitivity", "by_state": False,
                                            "detail": {"shape": [ns, npar], "method": meth}})
            except Exception as e:
                out["viol"].append({"what": "integration-raised", "which": "ode_and_sensitivityIV", "by_state": False,
                                    "detail": {"shape": [ns, npar], "method": meth, "error": "%s: %s" % (type(e).__name__, e)}})
        # an implicit integrator that hands its own working vector to the by-state system and its Jacobian
        if npar and not out["viol"]:
            try:
                varz_s, rhs_s, _ = aug_reference(R, False, True)
                ff_s = sp.lambdify(varz_s + [R.t] + list(R.ps), list(rhs_s), modules="math")
                init_s = np.concatenate([x0, np.zeros(ns * npar)])
                want_s = solve_ivp(lambda t, y: ff_s(*(list(y) + [t] + list(th))), (0.0, 1.5 + 1e-12), init_s, method="DOP853", rtol=1e-12, atol=1e-14, t_eval=times).y.T
                got_s = solve_ivp(lambda t, y: m.ode_and_sensitivity(y, t, True), (0.0, 1.5 + 1e-12), init_s.copy(), method="Radau", rtol=1e-9, atol=1e-11,
                                  t_eval=times, jac=lambda t, y: m.ode_and_sensitivity_jacobian(y, t, True)).y.T
                out["checks"] += 1
                if got_s.shape != want_s.shape or not np.allclose(got_s, want_s, rtol=1e-5, atol=1e-6):
                    out["viol"].append({"what": "integrated-sensitivities", "which": "ode_and_sensitivity", "by_state": True,
                                        "detail": {"shape": [ns, npar], "method": "scipy Radau with the by-state Jacobian",
                                                   "maxerr": float(np.max(np.abs(got_s - want_s))) if got_s.shape == want_s.shape else None}})
            except Exception as e:
                out["viol"].append({"what": "integration-raised", "which": "ode_and_sensitivity", "by_state": True,
                                    "detail": {"shape": [ns, npar], "method": "scipy Radau", "error": "%s: %s" % (type(e).__name__, e)}})
        # finite differences of reference solutions (Richardson) as an independent cross-check of the reference itself
        f0 = sp.lambdify(list(R.xs) + [R.t] + list(R.ps), list(R.f), modules="math")

        def solve(xx, tt):
            s_ = solve_ivp(lambda t, y: f0(*(list(y) + [t] + list(tt))), (0.0, 1.5 + 1e-12), xx, method="DOP853", rtol=1e-12, atol=1e-14, t_eval=times)
            return s_.y.T
        for k in range(npar):
            h = 1e-4
            tp, tm = list(th), list(th)
            tp[k] += h
            tm[k] -= h
            fd = (solve(x0, tp) - solve(x0, tm)) / (2 * h)
            blk = want[:, ns * (1 + k): ns * (2 + k)]
            if not np.allclose(fd, blk, rtol=1e-5, atol=1e-6):
                out["viol"].append({"what": "harness-reference-inconsistent", "which": "reference", "by_state": False, "detail": {"param": k}})
    return out


def main(argv=None):
    run = report.Run("C13", "exploration")
    env.load_pygom()
    quick = run.tier == "quick"
    shapes = [(d, p) for d in (1, 2, 3) for p in (0, 1, 2, 3)]
    jobs = [("shape(%d,%d)" % s, shape_def(*s), run.seed, True) for s in shapes]
    # predator-prey with a parameter-free unit-coefficient product (d(I')/dS is the lone symbol I)
    jobs.append(("LV-unit-product", {"states": ["S", "I"], "state_style": "list", "limits": [None, None], "params": ["beta", "gamma", "mu"],
                                     "param_style": "list", "derived": [], "events": [],
                                     "odes": [("S", "beta*S - gamma*S*I"), ("I", "S*I - mu*I")]}, run.seed, True))
    from mc import gen
    for sname in (["SIR", "BD", "UNUSED"] if quick else ["SIR", "BD", "UNUSED", "MIX", "ONE", "SIRS2"]):
        _, dd = gen.seed(gen.seed_values(sname), stochastic=(sname not in ("MIX", "UNUSED")))
        jobs.append(("seed:" + sname, dd, run.seed, not quick))
    res = pool.pmap(job, jobs, chunksize=1)
    checks = sum(r["checks"] for r in res)
    nt = sum(r["nontrivial"] for r in res)
    for r, j in zip(res, jobs):
        for v in r["viol"]:
            run.violation({"what": v["what"], "which": v["which"], "by_state": v.get("by_state")},
                          {"model": j[0], "def": j[1], "violation": v})
    run.sample({"model": jobs[5][0], "def": jobs[5][1]})
    run.cov.update({
        "evaluations": checks, "distinct_nontrivial": nt,
        "rule": "models of every shape (d,p) in {1,2,3}x{0,1,2,3} (nonlinear, asymmetric) and seed models x 5 evaluations (the first point three times with different parameter values, then two more points; one array handed to right-hand side, Jacobian and right-hand side again must come back untouched) x fixed "
                "pseudo-random sensitivity values x arrangement {by parameter, by state} x {with parameters, initial-value system}: "
                "ode_and_sensitivity / ode_and_sensitivityIV equal [f, vec(J*S+G), vec(J*S0)] in the documented layout, their _jacobian "
                "counterparts equal the symbolic derivative of that augmented right-hand side (1e-9), and integrating them with "
                "integrateFuncJac (methods None, dopri5, vode) reproduces the reference variational solution (1e-6), as does scipy Radau driven with the by-state system and its Jacobian (1e-5); the reference is itself "
                "cross-checked by central differences of reference solutions. non-trivial = augmented jacobian not symmetric",
        "exhaustive": True,
    })
    run.assumptions += ["sympy derivative of the reference augmented system is the oracle for the supplied jacobians"]
    rc = run.finish(exhaustive=True)
    pool.close()
    return rc


if __name__ == "__main__":
    sys.exit(main())
