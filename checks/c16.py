"""C16 — seeded serial simulations are reproducible."""
import sys

import numpy as np

from mc import build, env, gen, pool, report, sched, stoch
from checks import _stochfam as fam


def same_output(a, b):
    if type(a) is not type(b):
        return False
    if isinstance(a, (list, tuple)):
        return len(a) == len(b) and all(same_output(x, y) for x, y in zip(a, b))
    a, b = np.asarray(a), np.asarray(b)
    return a.shape == b.shape and np.array_equal(a, b)


def same_log(a, b):
    """draw logs equal, with nan equal to nan (a state outside the domain of the rates - possible only where the user
    declared no lower limit - makes the requested mean nan on both calls alike)"""
    if len(a) != len(b):
        return False
    for x, y in zip(a, b):
        if x[0] != y[0] or x[2] != y[2]:
            return False
        if x[1] != y[1] and not (isinstance(x[1], float) and isinstance(y[1], float) and x[1] != x[1] and y[1] != y[1]):
            return False
    return True


def explore_c16(args):
    """Leg (a)+(b) for stochastic simulation: every explored schedule goes only through the
    global generator seam, and the output is a function of the answers: repeating the call on
    the same model object with the same answers gives identical output (two paths per call)."""
    cfg, bound, max_exec = args
    st = {"cfg": cfg.name, "executions": 0, "violations": [], "n_violations": 0, "outcomes": set(), "skipped": None,
          "draws": 0, "capped": False}
    try:
        m, order = stoch.make_model(cfg)
    except Exception as e:
        st["skipped"] = "build: %s" % e
        return st

    def viol(what, s, **kw):
        st["n_violations"] += 1
        if len(st["violations"]) < 3:
            st["violations"].append({"what": what, "choices": list(s.choices), "detail": kw})

    def run(prefix):
        s1 = stoch.run_l2(m, cfg, prefix, horizon=600, iteration=2)
        st["executions"] += 1
        st["draws"] += len(s1.log)
        if s1.error is not None:
            return s1                      # returning at all is C04's business
        if s1.private_generators:
            viol("private-generator-constructed", s1, count=s1.private_generators)
        if s1.global_state_touched:
            viol("global-generator-consumed-outside-the-seam", s1)
        s2 = stoch.run_l2(m, cfg, list(s1.choices), horizon=600, iteration=2)
        if s2.error is not None or s2.choices != s1.choices or not same_log(s2.log, s1.log):
            viol("repeat-call-asks-different-draws", s1, second=(s2.error, s2.choices[:40]))
        elif not same_output(s1.out, s2.out):
            viol("repeat-call-different-output", s1)
        try:
            st["outcomes"].add(hash(np.asarray(s1.out[0][0]).tobytes()))
        except Exception:
            pass
        return s1

    try:
        n, capped = sched.explore(run, bound, lambda s: None, max_exec=max_exec)
        st["capped"] = capped
    except Exception as e:
        st["skipped"] = "explore: %s: %s" % (type(e).__name__, e)
    st["n_outcomes"] = len(st["outcomes"])
    st["outcomes"] = None
    return st


# --------------------------------------------------------------------- random parameters
PVALS = {"beta": (0.45, 0.8), "gamma": (0.25, 0.4), "mu": (0.15, 0.3)}


def param_job(args):
    """deterministic simulation with randomly drawn parameters: the environment answers each
    parameter draw from a 2-value menu; every answer sequence is enumerated."""
    name, d, forms, iteration, entry = args
    import scipy.stats as st_
    out = {"name": name, "executions": 0, "violations": [], "n_violations": 0, "outcomes": set()}
    pg = env.load_pygom()
    grid = np.array([0.5, 1.0, 2.0])
    x0 = [3.0, 1.0, 0.0][:len(d["states"])]

    def fresh(theta):
        m, _ = build.build(d)
        m.parameters = list(theta)
        m.initial_values = (np.array(x0), 0.0)
        return np.asarray(m.integrate(grid))

    cache = {}

    def run(prefix):
        s = sched.Sched(prefix, horizon=200)
        s.error = None
        s.out = None
        m, _ = build.build(d)
        m.initial_values = (np.array(x0), 0.0)
        pdict = {}
        fixed = dict(zip(d["params"], stoch.theta_for(d)))
        for pn in d["params"]:
            form = forms.get(pn)
            if form is None:
                pdict[pn] = fixed[pn]
                continue

            def sampler(n, *a, pn=pn, scalar=(form != "frozen"), **kw):
                k = s.choose(2)
                v = PVALS[pn][k]
                s.log.append(("param", pn, v))
                # R-style samplers return a scalar for n=1, a frozen distribution an array
                return v if (scalar and n == 1) else np.array([v] * n)
            if form == "frozen":
                fd = st_.gamma(a=2.0, scale=0.25)
                fd.rvs = sampler                  # the frozen distribution's draw is the seam
                pdict[pn] = fd
            elif form == "tuple_args":
                pdict[pn] = (sampler, (2.0, 0.25))
            else:
                pdict[pn] = (sampler, {"shape": 2.0, "scale": 0.25})
        try:
            with sched.owned(s):
                m.parameters = pdict
                if entry == "solve_determ":
                    s.out = m.solve_determ(grid, iteration=iteration, full_output=True)
                else:
                    s.out = m.simulate_param(grid, iteration, full_output=True)
        except Exception as e:
            s.error = "%s: %s" % (type(e).__name__, e)
        return s

    def viol(what, s, **kw):
        out["n_violations"] += 1
        if len(out["violations"]) < 3:
            out["violations"].append({"what": what, "choices": list(s.choices), "detail": kw})

    def on_exec(s):
        out["executions"] += 1
        if s.error:
            viol("raised", s, error=s.error)
            return
        if s.private_generators or s.global_state_touched:
            viol("draw-outside-the-global-seam", s, private=s.private_generators, touched=s.global_state_touched)
        Y, runs = s.out
        Y = np.asarray(Y)
        if len(runs) != iteration:
            viol("number-of-runs", s, got=len(runs), want=iteration)
            return
        mean = np.dstack([np.asarray(r) for r in runs]).mean(axis=2)
        if not np.array_equal(Y, mean):
            viol("mean-is-not-the-mean-of-the-returned-runs", s, maxdiff=float(np.max(np.abs(Y - mean))))
        # each returned run is the solution for one complete set of answered parameters,
        # consumed in order: the last `iteration` groups of draws
        rnd = [pn for pn in d["params"] if forms.get(pn)]
        groups = [s.log[i:i + len(rnd)] for i in range(0, len(s.log), len(rnd))]
        if any(len(g) != len(rnd) or [x[1] for x in g] != rnd for g in groups) or len(groups) < iteration:
            viol("parameter-draw-pattern", s, log=s.log)
            return
        fixed = dict(zip(d["params"], stoch.theta_for(d)))
        for r, g in zip(runs, groups[-iteration:]):
            th = dict(fixed)
            th.update({x[1]: x[2] for x in g})
            key = tuple(th[p] for p in d["params"])
            if key not in cache:
                cache[key] = fresh(key)
            if not np.allclose(np.asarray(r), cache[key], rtol=1e-9, atol=1e-12):
                viol("run-is-not-the-solution-for-its-drawn-parameters", s, params=th)
                break
        out["outcomes"].add(hash(Y.tobytes()))
        # replay: same answers, same output
        s2 = run(list(s.choices))
        if s2.error or not same_output(s.out, s2.out):
            viol("repeat-different-output", s)

    sched.explore(run, None, on_exec, max_exec=5000)
    out["n_outcomes"] = len(out["outcomes"])
    out["outcomes"] = None
    return out


def large_job(args):
    """random-parameter runs whose total size crosses the thresholds at which an implementation might start to work in
    blocks: a long time grid and many iterations (one fixed answer pattern per job, not an enumeration)"""
    name, d, npts, iteration, entry = args
    out = {"name": name, "executions": 0, "violations": [], "n_violations": 0, "outcomes": set()}
    env.load_pygom()
    grid = np.linspace(0.01, 3.0, npts)
    x0 = [3.0, 1.0, 0.0][:len(d["states"])]
    s = sched.Sched([1 if (7 * i + 3) % 5 < 2 else 0 for i in range(iteration)], horizon=4 * iteration + 10)
    m, _ = build.build(d)
    m.initial_values = (np.array(x0), 0.0)
    fixed = dict(zip(d["params"], stoch.theta_for(d)))
    pn = d["params"][0]

    def sampler(n, *a, **kw):
        v = PVALS[pn][s.choose(2)]
        s.log.append(("param", pn, v))
        return v if n == 1 else np.array([v] * n)
    pdict = dict(fixed)
    pdict[pn] = (sampler, (2.0, 0.25))
    try:
        with sched.owned(s):
            m.parameters = pdict
            Y, runs = (m.solve_determ(grid, iteration=iteration, full_output=True) if entry == "solve_determ"
                       else m.simulate_param(grid, iteration, full_output=True))
    except Exception as e:
        out["violations"].append({"what": "raised", "detail": {"error": "%s: %s" % (type(e).__name__, e)}})
        out["n_violations"] = 1
        return out
    out["executions"] = 1
    Y = np.asarray(Y)
    if len(runs) != iteration:
        out["violations"].append({"what": "number-of-runs", "detail": {"got": len(runs), "want": iteration}})
    else:
        mean = np.dstack([np.asarray(r) for r in runs]).mean(axis=2)
        if Y.shape != mean.shape or not np.allclose(Y, mean, rtol=1e-12, atol=1e-14):
            out["violations"].append({"what": "mean-is-not-the-mean-of-the-returned-runs",
                                      "detail": {"grid_points": npts, "iterations": iteration, "maxdiff": float(np.max(np.abs(Y - mean))) if Y.shape == mean.shape else None}})
        if len({np.asarray(r).tobytes() for r in runs}) < 2:
            out["violations"].append({"what": "large-job-degenerate", "detail": {}})
    out["n_violations"] = len(out["violations"])
    return out


# --------------------------------------------------------------------- real seeds
def seed_job(args):
    name, d, mode, seeds, kind = args
    import scipy.stats as st_
    out = {"name": name, "runs": 0, "violations": [], "distinct": 0}
    x0 = stoch.legal_x0(d, [6, 2, 0, 1, 0][:len(d["states"])])
    outs = {}
    for sd in seeds:
        res = []
        for rep in range(2):
            if kind == "stoch":
                cfg = stoch.Config(d, stoch.theta_for(d), x0, 2.0, mode)
                m, _ = stoch.make_model(cfg)
                np.random.seed(sd)
                import io, contextlib
                with contextlib.redirect_stdout(io.StringIO()):
                    r = m.solve_stochast(2.0, 2, exact=(mode[0] == "exact"), full_output=True)
            else:
                m, _ = build.build(d)
                m.initial_values = (np.array([float(v) for v in x0]), 0.0)
                fixed = dict(zip(d["params"], stoch.theta_for(d)))
                p0 = d["params"][0]
                from pygom.utilR import rgamma
                fixed[p0] = st_.gamma(a=2.0, scale=0.25) if mode[0] == "frozen" else (rgamma, (2.0, 4.0))
                np.random.seed(sd)
                m.parameters = fixed
                r = m.solve_determ(np.array([0.5, 1.0, 2.0]), iteration=3, full_output=True)
            res.append(r)
            out["runs"] += 1
        if not same_output(res[0], res[1]):
            out["violations"].append({"what": "same-seed-different-output", "seed": sd})
        outs[sd] = res[0]

    def sig(r):
        if kind == "stoch":
            return b"".join(np.asarray(a, float).tobytes() for part in (r[0], r[2]) for a in part)
        return np.asarray(r[0]).tobytes()
    sigs = {sd: sig(r) for sd, r in outs.items()}
    out["distinct"] = len(set(sigs.values()))
    if out["distinct"] != len(seeds):
        dup = [sd for sd in seeds if list(sigs.values()).count(sigs[sd]) > 1]
        out["violations"].append({"what": "different-seeds-same-output", "seeds": dup[:6]})
    return out


def main(argv=None):
    run = report.Run("C16", "model_checking")
    env.load_pygom()
    quick = run.tier == "quick"
    seeds = ["SIR", "BD", "ONE"] if quick else ["SIR", "BD", "ONE", "CHAIN", "SIRS2", "DRAIN"]
    defs, _ = fam.gather_defs(seeds, 0)
    cfgs = fam.l2_configs(defs, "thorough" if not quick else "quick", near=True,
                          modes=fam.MODES[:3] if quick else None)
    bound = 2 if quick else 3
    jobs = [(c, bound if c.mode[0] != "tau_adaptive" else bound - 1, 20000 if quick else 30000) for c in cfgs]
    if not quick:
        # the 1-edit neighbourhood of the seeds with deviation bound 1
        seen = {gen.canon(d) for _s, d in defs}
        defs1 = [(s_, d) for s_, d in fam.gather_defs(seeds, 1)[0] if gen.canon(d) not in seen]
        cfgs1 = fam.l2_configs(defs1, "quick", modes=fam.MODES[:3])
        jobs += [(c, 1, 4000) for c in cfgs1]
        cfgs = cfgs + cfgs1
    order = sorted(range(len(jobs)), key=lambda k: (jobs[k][0].mode[0] != "tau_adaptive", -jobs[k][1]))
    jobs = [jobs[k] for k in order]
    cfgs = [cfgs[k] for k in order]
    res = pool.pmap(explore_c16, jobs, chunksize=1)
    ex = 0
    for r, c in zip(res, cfgs):
        ex += r["executions"]
        for v in r["violations"]:
            run.violation({"leg": "stochastic", "what": v["what"], "mode": c.mode[0]}, {"config": c.key(), "violation": v})
        run.count("stochastic executions mode:" + c.mode[0], r["executions"])
        if r["skipped"]:
            run.count("skipped:" + r["skipped"][:50])
    nout = sum(r.get("n_outcomes", 0) for r in res)
    draws = sum(r["draws"] for r in res)
    # random parameters
    _, sir = gen.seed(gen.seed_values("SIR"), stochastic=True)
    _, chain = gen.seed(gen.seed_values("CHAIN"), stochastic=True)
    pj = []
    for dn, d in (("SIR", sir), ("CHAIN", chain)):
        for forms in ({"beta": "frozen"}, {"beta": "tuple_args"}, {"gamma": "tuple_kwargs"},
                      {"beta": "frozen", "gamma": "tuple_args"}, {"beta": "tuple_args", "gamma": "frozen"}):
            for it in ((1, 2) if quick else (1, 2, 3)):
                for entry in ("solve_determ", "simulate_param"):
                    pj.append(("%s/%s/it=%d/%s" % (dn, forms, it, entry), d, forms, it, entry))
    pres = pool.pmap(param_job, pj, chunksize=1)
    pex = 0
    for r, j in zip(pres, pj):
        pex += r["executions"]
        for v in r["violations"]:
            run.violation({"leg": "random-parameters", "what": v["what"], "entry": j[4]}, {"job": j[0], "violation": v})
    lj = [("large/%s/%dx%d" % (entry, npts, it), sir, npts, it, entry) for entry in ("solve_determ", "simulate_param")
          for npts, it in ([(6001, 100)] if quick else [(6001, 100), (2501, 257), (20001, 37)])]
    lres = pool.pmap(large_job, lj, chunksize=1)
    for r, j in zip(lres, lj):
        pex += r["executions"]
        for v in r["violations"]:
            run.violation({"leg": "random-parameters", "what": v["what"], "entry": j[4], "size": "large"}, {"job": j[0], "violation": v})
    run.count("large random-parameter runs (long grid x many iterations)", len(lj))
    pout = sum(r["n_outcomes"] for r in pres)
    run.count("random-parameter executions", pex)
    # real seeds
    block = [run.seed * 1000 + k for k in range(12 if quick else 40)]
    sj = []
    for dn, d in (("SIR", sir), ("CHAIN", chain)):
        for mode in (("exact",), ("tau_fixed", 0.4), ("tau_adaptive", 0.3)):
            sj.append(("%s/%s" % (dn, mode), d, mode, block, "stoch"))
        for mode in (("frozen",), ("tuple",)):
            sj.append(("%s/param-%s" % (dn, mode[0]), d, mode, block, "param"))
    sres = pool.pmap(seed_job, sj, chunksize=1)
    sruns = 0
    for r, j in zip(sres, sj):
        sruns += r["runs"]
        for v in r["violations"]:
            run.violation({"leg": "real-seeds", "what": v["what"], "config": j[0]}, {"job": j[0], "violation": v})
    run.count("real-seed runs", sruns)
    run.sample({"config": cfgs[0].name, "note": "each schedule executed twice on one model object with two paths per call"})
    run.cov.update({
        "evaluations": ex + pex + sruns,
        "distinct_nontrivial": nout + pout + sum(r["distinct"] for r in sres),
        "rule": "(a,b) every schedule of answers with <= %d non-default answers for solve_stochast(T, 2) on %d configurations: "
                "all draws pass through numpy.random.exponential/poisson with the global generator untouched and no private "
                "generator built, and a second call on the same object with the same answers returns identical output; "
                "random parameters: every answer sequence (2-value menu) for 1-2 random parameters given as frozen "
                "distribution / (sampler,args) / (sampler,kwargs), 1-3 iterations, solve_determ and simulate_param: mean == "
                "mean of returned runs exactly and each run is the solution for its drawn parameters; the same on runs whose size crosses "
                "blocking thresholds (6001-point grid x 100 iterations, one fixed answer pattern); (c) real seeds %s: "
                "same seed twice identical, all different seeds pairwise different (raw paths incl. event times)" % (
                    bound, len(cfgs), "%d..%d" % (block[0], block[-1])),
        "states": ex, "transitions": draws, "traces_validated_against_impl": ex + pex,
        "configurations": len(cfgs) + len(pj) + len(sj),
    })
    run.assumptions += ["numpy's generators are deterministic functions of the seed",
                        "'different seeds give different outputs' is enumerated only over the seed block"]
    rc = run.finish(exhaustive=True)
    pool.close()
    return rc


if __name__ == "__main__":
    sys.exit(main())
